#!/usr/bin/env python3
# usage: save_mutant.py <prop> <n> <pkgdir> <detected: yes|no|thorough> <check output summary>
import sys, os, json, shutil, subprocess
prop, n, pkg, detected, summary = sys.argv[1:6]
src = f"/tmp/mut-{prop}/out"
dst = f"/verif/seeded/{prop}-{n}"
os.makedirs(dst, exist_ok=True)
shutil.copy(f"{src}/patch{n}.diff", f"{dst}/patch.diff")
shutil.copy(f"{src}/demo{n}_test.go", f"{dst}/demo_test.go")
note = open(f"{src}/note{n}.md").read()
open(f"{dst}/note.md", "w").write(note)
head = subprocess.check_output(["git", "-C", "/repo", "rev-parse", "--short", "HEAD"]).decode().strip()
meta = {"property": prop, "breaks": prop, "origin": "independent sub-agent given only the property text and a scratch worktree",
        "demo_package_dir": pkg, "repo_head_when_confirmed": head,
        "needs_to_manifest": note.strip().split("\n")[0:12],
        "confirmed": {"builds": True, "existing_suite_passes_with_patch": True, "demo_fails_with_patch": True, "demo_passes_without_patch": True,
                      "how": f"tools/confirm_mutant.sh {prop} {n} {pkg} in the scratch worktree /tmp/mut-{prop}"},
        "detected_by_check": detected, "check_result": summary,
        "ran": f"git -C /repo apply seeded/{prop}-{n}/patch.diff; ./check {prop} --tier quick; git -C /repo checkout -- ."}
json.dump(meta, open(f"{dst}/meta.json", "w"), indent=1)
print("saved", dst)
