#!/bin/bash
# usage: round.sh <prop> <worktree-prefix e.g. mut2>   confirms and tries every mutant in /tmp/<prefix>-<prop>/out
export GOFLAGS=-mod=mod GOPROXY=off GOSUMDB=off GOTOOLCHAIN=local
p=$1; pre=$2; w=/tmp/$pre-$p
cd $w || exit 2
for n in 1 2 3; do
  [ -f out/patch$n.diff ] || continue
  pkg=$(head -15 out/demo${n}_test.go | grep -o 'pkg/[a-zA-Z0-9_/]*' | head -1)
  [ -z "$pkg" ] && pkg=$(grep -l "^package" out/demo${n}_test.go >/dev/null; echo pkg/sbom)
  echo "== $p/$n pkg=$pkg"
  git checkout -q -- . ; rm -f $pkg/zz_demo_test.go
  git apply out/patch$n.diff || { echo "APPLY FAILED"; continue; }
  go build ./... || { echo "BUILD FAILED"; git checkout -q -- .; continue; }
  pkgs=$(go list ./... | grep -v /out)
  if go test -vet=off -count=1 $pkgs >/tmp/confirm-$p-$n.log 2>&1; then echo "suite: PASS with mutation"; else echo "suite: FAIL with mutation"; fi
  cp out/demo${n}_test.go $pkg/zz_demo_test.go
  if go test -vet=off -count=1 ./$pkg -run 'Demo|TestC[0-9][0-9]' >/tmp/confirm-$p-$n-demo.log 2>&1; then echo "demo with mutation: PASS (unexpected)"; else echo "demo with mutation: FAIL (expected)"; fi
  git checkout -q -- .
  if go test -vet=off -count=1 ./$pkg -run 'Demo|TestC[0-9][0-9]' >/tmp/confirm-$p-$n-demo0.log 2>&1; then echo "demo without mutation: PASS (expected)"; else echo "demo without mutation: FAIL (unexpected)"; fi
  rm -f $pkg/zz_demo_test.go
  git -C /repo apply $w/out/patch$n.diff || { echo "APPLY to /repo FAILED"; continue; }
  /verif/check $p --tier quick -noselftest 2>&1 | grep -E "^VIOLATION|^  harness|^property=|^ERROR|^INCOMPLETE|^SPURIOUS" | head -6 | cut -c1-220; git -C /verif checkout -- evidence/ 2>/dev/null
  git -C /repo checkout -- .
done
