#!/bin/bash
# usage: regress_seeds.sh [seed dirs...]   re-applies every seeded change to /repo, runs the property's quick check, expects exit 1
cd /verif
dirs=("$@"); [ ${#dirs[@]} -eq 0 ] && dirs=(seeded/*)
for d in "${dirs[@]}"; do
  n=$(basename $d); p=${n%%-*}
  if ! git -C /repo apply --check /verif/$d/patch.diff 2>/dev/null; then echo "$n: PATCH DOES NOT APPLY"; continue; fi
  git -C /repo apply /verif/$d/patch.diff
  out=$(timeout 1800 ./check $p --tier quick -noselftest 2>&1); rc=$?
  git -C /repo checkout -- .
  echo "$n: exit=$rc $(echo "$out" | grep -E '^VIOLATION' | head -2 | sed 's/replay=.*//' | tr '\n' ' ') $(echo "$out" | grep -E '^  harness' | head -1 | cut -c1-110)"
done
# the runs above rewrote evidence/ from mutated trees: restore the committed (clean-tree) evidence
git -C /verif checkout -- evidence/ 2>/dev/null
