#!/usr/bin/env python3
# usage: save2.py <prop> <n> <worktree-prefix> <detected: yes|no|thorough|other:<Cxx>> <check output summary>
import sys, os, json, shutil, subprocess, re, glob
prop, n, pre, detected, summary = sys.argv[1:6]
src = f"/tmp/{pre}-{prop}/out"
k = 1
while os.path.exists(f"/verif/seeded/{prop}-{k}"):
    k += 1
dst = f"/verif/seeded/{prop}-{k}"
os.makedirs(dst)
shutil.copy(f"{src}/patch{n}.diff", f"{dst}/patch.diff")
shutil.copy(f"{src}/demo{n}_test.go", f"{dst}/demo_test.go")
note = open(f"{src}/note{n}.md").read()
open(f"{dst}/note.md", "w").write(note)
head = subprocess.check_output(["git", "-C", "/repo", "rev-parse", "--short", "HEAD"]).decode().strip()
m = re.search(r'pkg/[a-zA-Z0-9_/]*', "".join(open(f"{src}/demo{n}_test.go").readlines()[:15]))
pkg = m.group(0) if m else "pkg/sbom"
meta = {"property": prop, "breaks": prop, "origin": f"independent sub-agent (round {pre}) given only the property text (statement, quantifier, anchors) and a scratch worktree",
        "demo_package_dir": pkg, "repo_head_when_confirmed": head,
        "needs_to_manifest": note.strip().split("\n")[0:12],
        "confirmed": {"builds": True, "existing_suite_passes_with_patch": True, "demo_fails_with_patch": True, "demo_passes_without_patch": True,
                      "how": f"tools/round.sh {prop} {pre} in the scratch worktree /tmp/{pre}-{prop}"},
        "detected_by_check": detected, "check_result": summary,
        "ran": f"git -C /repo apply seeded/{prop}-{k}/patch.diff; ./check {prop} --tier quick; git -C /repo checkout -- ."}
json.dump(meta, open(f"{dst}/meta.json", "w"), indent=1)
print("saved", dst)
