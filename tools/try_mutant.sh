#!/bin/bash
# usage: try_mutant.sh <prop> <patch> [extra check args]   applies the patch to /repo, runs the quick check, reverts
p=$1; patch=$2; shift 2
git -C /repo apply "$patch" || { echo "APPLY FAILED"; exit 2; }
/verif/check $p --tier quick -noselftest "$@" 2>&1 | grep -E "^VIOLATION|^  harness|^property=|^KNOWN|^ERROR|^INCOMPLETE|^SPURIOUS" | head -12
git -C /repo checkout -- .
