#!/bin/bash
# usage: confirm_mutant.sh <prop> <n> <pkgdir>   (in scratch worktree /tmp/mut-<prop>)
# Confirms: builds, existing tests pass with the patch, demo fails with it and passes without it.
export GOFLAGS=-mod=mod GOPROXY=off GOSUMDB=off GOTOOLCHAIN=local
p=$1; n=$2; pkg=$3; w=/tmp/mut-$p
cd $w || exit 2
git checkout -q -- . ; rm -f $pkg/zz_demo_test.go
git apply out/patch$n.diff || { echo "APPLY FAILED"; exit 2; }
go build ./... || { echo "BUILD FAILED"; git checkout -q -- .; exit 2; }
pkgs=$(go list ./... | grep -v /out)
if go test -vet=off -count=1 $pkgs >/tmp/confirm-$p-$n.log 2>&1; then echo "suite: PASS with mutation"; else echo "suite: FAIL with mutation"; tail -5 /tmp/confirm-$p-$n.log; fi
cp out/demo${n}_test.go $pkg/zz_demo_test.go
if go test -vet=off -count=1 ./$pkg -run 'Demo|C20M' >/tmp/confirm-$p-$n-demo.log 2>&1; then echo "demo with mutation: PASS (unexpected)"; else echo "demo with mutation: FAIL (expected)"; fi
git checkout -q -- .
if go test -vet=off -count=1 ./$pkg -run 'Demo|C20M' >/tmp/confirm-$p-$n-demo0.log 2>&1; then echo "demo without mutation: PASS (expected)"; else echo "demo without mutation: FAIL (unexpected)"; tail -5 /tmp/confirm-$p-$n-demo0.log; fi
rm -f $pkg/zz_demo_test.go
