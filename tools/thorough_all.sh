#!/bin/bash
# usage: thorough_all.sh <ids...>   runs the thorough tier of each property in turn, one summary line each
cd "$(dirname "$0")/.."
[ -x bin/gosym ] || (cd engine && GOFLAGS=-mod=mod GOPROXY=off GOSUMDB=off GOTOOLCHAIN=local go build -o ../bin/gosym .)
for p in "$@"; do s=$(date +%s); out=$(timeout 10800 ./check $p --tier thorough 2>&1); rc=$?; e=$(date +%s); echo "$p rc=$rc $((e-s))s $(echo "$out" | grep -c '^KNOWN') known | $(echo "$out" | grep -E '^(VIOLATION|INCONCLUSIVE|INCOMPLETE|ERROR|SPURIOUS|SELFTEST)' | head -5 | cut -c1-170 | tr '\n' ';') | $(echo "$out" | tail -1 | cut -c1-200)"; done
