#!/usr/bin/env python3
"""Regenerates /verif/MANIFEST.json from the table below (claimed checks + not_applicable)."""
import json

TECH = "bounded symbolic execution of the real Go code (go/ssa) with cvc5 + z3 deciding branch feasibility and every property assertion; counterexamples replayed natively"
TRUST = ("Trusted base: the gosym interpreter (go/ssa semantics), the stubs listed in the evidence file (fmt, sort, strings, strconv, protoreflect Range, "
         "sha256 as an injective uninterpreted function, logrus), cvc5 1.0 / z3 4.8.12. Holds only inside the bounds recorded in the evidence; "
         "the equality-rewriting layer in front of the solver is audited against cvc5 on a sample in the quick tier and bypassed for assertions in the thorough tier.")

CLAIMED = {
 "C01": ("SPDX 2.3 JSON write-then-read on documents built from decisions and symbolic identifiers/values, the JSON text layer cut at the value tree "
         "(encoding/json modelled, custom Marshal/Unmarshal code of the SPDX library interpreted): node set with kinds, typed edge set for every "
         "relationship type the model shares with SPDX, root set; per attribute of packages and files (one symbolic field at a time, every enum number); "
         "a second pass changes nothing. N<=3 nodes, E<=2 edges, 2 targets.", "12.3"),
 "C02": ("CycloneDX 1.4/1.5 write-then-read: every tree shape on up to 4 (quick) / 5 (thorough) nodes times every order of the stored contains edges "
         "(one edge per pair or grouped per parent), node set and parent function; per CycloneDX-expressible attribute with symbolic values and every "
         "enum number (hash algorithms, external reference types, purposes) at root / top-level / nested position; serial number, numeric version, "
         "lifecycle types; second pass. Multi-licence loss is a listed known finding.", "12.3"),
 "C03": ("Documents written as SPDX 2.3 / CycloneDX 1.4/1.5 from graphs with symbolic identifiers (dangling, repeated, self-referencing shapes by decision) "
         "are self-contained: every reference in the emitted value tree resolves inside it, and reading it back gives a closed graph; also for a "
         "document written after another (successful or failed) write in the same process.", "12.3"),
 "C04": ("Parsers on damaged input: every single structural fault (null, wrong type a/b, absent, empty, duplicated) at every position of a reference "
         "CycloneDX and SPDX value tree (quick), pairs of faults (thorough) and hand-picked shapes: the reader returns a document or an error; "
         "one string value at a time arbitrary (symbolic): the reader returns a document or an error; no panic (defer/recover semantics modelled incl. "
         "the direct-call rule), no process exit. Byte-level JSON syntax errors are outside (encoding/json is cut).", "12.3"),
 "C05": ("Parsed graphs: closure of roots/edge endpoints, non-empty and input-unique identifiers, generated identifiers (count, alphabet, distinctness) "
         "for CycloneDX trees of <=3/4 components with symbolic / absent / repeated references and SPDX documents of <=2/3 elements with "
         "decision-chosen relationships; parsing twice, with the format stated, and behind a symbolic leading layout byte gives identical graphs; "
         "NewNodeIdentifier on seeds of <=2/3 symbolic code points (<= U+2FFFF): non-empty, identifier-safe alphabet, deterministic.", "12.3"),
 "C06": ("Format detection as a decision table over the decoded top-level declaration (symbolic bomFormat/specVersion/spdxVersion, present or absent), "
         "the line sniffer over <=2/3 symbolic text lines, the rewind contract incl. failing Seek, agreement between writer output and sniffer for "
         "every registered format. JSON byte syntax is outside (encoding/json is cut).", "12.3"),
 "C08": ("One inductive step per editing operation (union, intersect, add, remove, relate node/list, the three extractions) from an arbitrary well-formed "
         "pre-state with symbolic identifiers: post-state well-formed, normalised where the property says so, RemoveNodes exact. Covers every equality pattern "
         "of ids/endpoints/roots within N<=3 nodes, E<=2 edges, T<=1 (quick) / 2 (thorough) targets, R<=1..3 roots; sequences follow by induction.", "3.C08"),
 "C09": ("Union/Add exactness of node, root and restricted edge sets for ill-formed symbolic operands (2+2 nodes), idempotence/commutativity/identity, "
         "associativity for closed operands, and per-attribute precedence for every field of sbom.Node (one symbolic field at a time, sentinels elsewhere).", "3.C09"),
 "C10": ("Intersect exactness (node set, root bounds, edge bounds), idempotence, commutativity, absorption, empty, edge merging on shared nodes, "
         "per-attribute precedence for every Node field; symbolic ill-formed operands 2+2 nodes.", "3.C10"),
 "C15": ("NodeGraph / NodeSiblings / NodeDescendants against a reference bounded-reachability fixpoint evaluated symbolically alongside the code; "
         "node set, edge bounds, root list, monotonicity in depth; termination by unwinding assertion. N<=3 general (4 in the fan-out family), E<=2 (3 in the interleaved family), T<=2; a second extraction from the same list.", "12.3"),
 "C16": ("Plain lookups return exactly the matching nodes (pointer identity, each once) for symbolic ids/names/identifiers incl. repeated ids; "
         "GetMatchingNode against the documented rule for every map iteration order (order is a decision variable), incl. the three-node tie-break cases.", "12.3"),
 "C07": ("Serialize of every registered driver (CycloneDX 1.4/1.5, SPDX 2.3) on arbitrary Document values built by decisions (absent metadata / node list / "
         "document-type parts, full-range enum numbers, symbolic ids with dangling/cyclic/repeated shapes, auto-generated ids, every containment tree on <=5 "
         "nodes plus one extra contains edge): no panic, no process exit, termination (unwinding assertion), output or error; output independent of earlier "
         "successful or failed serializations (SPDX and CycloneDX histories) and of map iteration order (two runs, all orders, equal up to array order and "
         "creation time). JSON text is outside (see DESIGN 12.3/12.7).", "12.3"),
 "C11": ("Write-set monitor: every store (incl. appends into spare capacity, sort swaps, copy) into memory reachable from the operands of every listed "
         "read-only operation is a violation on that path, with a value-changing witness from the solver; order-relevant data symbolic; 16 operand shapes (spare capacity, parallel edges, two contacts, file nodes with arbitrary text).", "12.3"),
 "C12": ("Havoc-and-compare: every mutable location reachable from a copy/result gets a fresh symbolic value and the source's snapshot must be provably "
         "unchanged (and vice versa), for Node, Edge, Person, ExternalReference, NodeList copies (dates over the whole range), Union/Intersect results (also with a side without roots and parallel edges), and call histories (an earlier copy used as operand later).", "12.3"),
 "C13": ("Node/Edge/NodeList equality vs same-content (multisets, dates to the second) per schema field, symmetry, transitivity, checksum agreement, "
         "permutation invariance; flattened-string collisions are a listed known finding keyed by a region predicate; outside it equality must discriminate.", "3.C13"),
 "C14": ("Node.Diff: nil iff the attribute has the same content (sets / seconds), count, and reconstruction of the second node from Added/Removed, per "
         "schema field and for field pairs; nested-element identity collisions are a listed known finding.", "3.C14"),
 "C17": ("Lock-set analysis of every package-level entry point of reader/writer (+ identifier generation) executed symbolically in pairs with call-granular "
         "interleaving: unprotected conflicting accesses to pre-existing memory = data race; several atomic steps on one shared object within a call = not "
         "linearizable. 15 entry points: registries, lookups, constructors, configuration in place, write, parse, line and JSON format detection, identifier generation. Counterexamples replayed under go test -race.", "12.3"),
 "C18": ("Histories of 3 constructor calls with decision-chosen options and symbolic option values; every instance compared with f(defaults, own options); "
         "per-call options observed through recording drivers; one per-call object shared by two writers; configuration in place; later and earlier instances unchanged.", "12.3"),
 "C19": ("Store/Retrieve on a file-system + protobuf-codec model: symbolic identifiers, unprivileged process, injected I/O failures, corrupted entries; "
         "round trip, isolation, confinement, NoClobber, overwrite, error returns.", "3.C19"),
 "C20": ("Crash point (every mutating call boundary) and torn-write length (solver variable) during Store on the file-system model, first store and "
         "overwrite, with and without NoClobber; Retrieve afterwards returns old, new or error; other entries intact; a completed store after an interrupted one is retrieved exactly. Native replay kills a child inside the write (RLIMIT_FSIZE).", "12.3"),
}

NA_REASON = "check under construction in this session; not yet claimed"

def main():
    props = [json.loads(l)["id"] for l in open("/verif/properties.jsonl")]
    m = {
        "version": 1,
        "setup_cmd": "cd /verif/engine && GOFLAGS=-mod=mod GOPROXY=off GOSUMDB=off GOTOOLCHAIN=local go build -o ../bin/gosym .",
        "hooks": {"guard": "verif", "enable": "none needed: harnesses and the harness runtime are injected by build overlay as the virtual packages internal/verifh and internal/verifrt; /repo carries no hooks",
                  "baseline_off_cmd": "cd /repo && go test -vet=off -count=1 ./...", "source_commits": [], "add_only": True},
        "engines": [{"name": "gosym", "path": "/verif/engine", "serves_properties": sorted(CLAIMED),
                     "kind_free_text": "bounded symbolic execution of go/ssa (own interpreter), cvc5+z3 via SMT-LIB2, native replay of counterexamples"}],
        "checks": [], "not_applicable": [],
        "notes": "Every check: ./check <id> --tier quick|thorough. Exit 0 = held on everything explored (KNOWN-FINDING / INCOMPLETE / INCONCLUSIVE lines possible), 1 = VIOLATION (natively reproduced), 2 = machinery error.",
    }
    for p in props:
        if p in CLAIMED:
            text, ref = CLAIMED[p]
            m["checks"].append({
                "property_id": p, "quick_cmd": f"./check {p} --tier quick", "thorough_cmd": f"./check {p} --tier thorough",
                "evidence_file": f"/verif/evidence/{p}.json", "replay_cmd_template": f"./check {p} --replay {{path}}", "engine": "gosym",
                "level_claimed": {"category": "model_checking", "text": text, "design_ref": ref},
                "level_note": TRUST, "technique": TECH})
        else:
            m["not_applicable"].append({"property_id": p, "reason": NA.get(p, NA_REASON)})
    json.dump(m, open("/verif/MANIFEST.json", "w"), indent=1)

NA = {}

if __name__ == "__main__":
    main()
