package main

import (
	"path/filepath"
	"fmt"
	"go/types"
	"strings"

	"golang.org/x/tools/go/ssa"
)

// File-system, protobuf codec and crash model (C19, C20).
//
// State: directories and files keyed by (possibly symbolic) path strings. The process is unprivileged: creating an
// entry in a directory needs the owner write and execute bits, reading one needs execute. filepath.Join(dir, name) is
// dir ++ "/" ++ name (clean operands). os.CreateTemp creates dir/<fresh name> (no separator in the fresh part).
// proto.Marshal yields an opaque blob that remembers a deep copy of the message; proto.Unmarshal of a complete blob
// restores it, of a blob torn at length 0 yields the empty message without error (a protobuf wire-format fact), of a
// blob torn elsewhere either fails or - at a top-level field boundary - yields the message truncated after its first
// field, without error. Under verifrt.CrashDuring a crash decision is offered before and after every mutating call,
// and inside a write with a torn length that is a solver variable; completed calls persist (process death, not power loss).

type fsEnt struct {
	path    *Term
	mode    int64
	content Value
}

type fsState struct {
	dirs   []*fsEnt
	files  []*fsEnt
	ntmp   int
	armed  bool
	faults bool
}

type crashEvent struct{}

type blobVal struct {
	doc  Value // deep copy of the message struct
	typ  types.Type
	torn *Term // nil: complete; else number of bytes that reached the file
	n    *Term // encoded length (symbolic, > 0 for a message with content)
	junk bool  // not a protobuf encoding at all
	hybrid bool // new bytes followed by the tail of older, longer content
	midField bool // torn in the middle of a field: decoding fails (after filling what was read)
}

type fileAbs struct {
	ent        *fsEnt
	path       *Term
	noTrunc    bool
	appendMode bool
}

type fileInfoAbs struct{ dir bool }

func (f *fileInfoAbs) invoke(ex *Exec, method string, args []Value, site string) Value {
	switch method {
	case "IsDir":
		return f.dir
	case "Mode":
		return int64(0)
	}
	panic(pathAbort{"unsupported: FileInfo." + method})
}

func (ex *Exec) fsys() *fsState {
	if ex.fs == nil {
		ex.fs = &fsState{}
	}
	return ex.fs
}

func (ex *Exec) fsFind(list []*fsEnt, path *Term) *fsEnt {
	var alts []*Term
	var idx []int
	var none []*Term
	for i, e := range list {
		eq := ex.canon(mkEq(e.path, path))
		if eq == tTrue {
			return e
		}
		if eq == tFalse {
			continue
		}
		alts = append(alts, mkEq(e.path, path))
		idx = append(idx, i)
		none = append(none, mkNot(mkEq(e.path, path)))
	}
	if len(alts) == 0 {
		return nil
	}
	alts = append(alts, mkAnd(none...))
	c := ex.choose(alts)
	if c == len(alts)-1 {
		return nil
	}
	return list[idx[c]]
}

// parentOf finds the directory d with path = d ++ "/" ++ name, name without separator. nil: no such directory.
func (ex *Exec) parentOf(path *Term) (*fsEnt, *Term) {
	fs := ex.fsys()
	for _, d := range fs.dirs {
		pre := mkConcat(d.path, mkStr("/"))
		if pre.Op == "cs" {
			if first := catAtoms(path)[0]; first.Op == "cs" && len(first.S) >= len(pre.S) {
				// both sides start with constants: decide the prefix relation on them
				if !strings.HasPrefix(first.S, pre.S) {
					continue
				}
				rest := append([]*Term{mkStr(first.S[len(pre.S):])}, catAtoms(path)[1:]...)
				name := mkConcat(rest...)
				if ex.decideBool(slashFree(name)) {
					return d, name
				}
				continue
			}
		}
		da, pa := catAtoms(pre), catAtoms(path)
		if len(pa) > len(da) {
			ok := true
			for i := range da {
				if da[i] != pa[i] {
					ok = false
				}
			}
			if ok {
				name := mkConcat(pa[len(da):]...)
				if ex.decideBool(slashFree(name)) {
					return d, name
				}
				continue
			}
		}
		// general case: decide the prefix relation
		name := ex.freshVar("basename", SStr, "string", false)
		if ex.decideBool(mkAnd(mkEq(path, mkConcat(pre, name)), mkNot(mkContains(name, mkStr("/"))))) {
			return d, name
		}
	}
	return nil, nil
}

// slashFree: the term contains no path separator. A digest rendering (64 hex digits) and separator-free constants
// are known to be free of it; anything else is a question for the solver.
func slashFree(t *Term) *Term {
	ok := true
	for _, a := range catAtoms(t) {
		switch {
		case a.Op == "cs" && !strings.Contains(a.S, "/"):
		case a.Op == "uf" && a.Name == "H":
		case a.Op == "var" && strings.HasSuffix(a.Name, "_tmpname"): // decimal digits by construction
		default:
			ok = false
		}
	}
	if ok {
		return tTrue
	}
	return mkNot(mkContains(t, mkStr("/")))
}

func fsErr(site, kind string) Iface {
	return Iface{T: opaqueType, V: &errAbs{site: site, msg: "fs:" + kind, kind: kind}}
}

func (ex *Exec) crashPoint() {
	fs := ex.fsys()
	if fs.armed && !ex.concreteMode() && ex.chooseFree(2) == 1 {
		panic(crashEvent{})
	}
}

func (ex *Exec) fault(name string) bool {
	fs := ex.fsys()
	return fs.faults && !ex.concreteMode() && ex.chooseFree(2) == 1
}

func pathTerm(v Value) *Term { return strTerm(v) }

// deepClone copies a value graph (pointers, slices, maps) so that later mutation of the original is invisible.
func deepClone(v Value, memo map[*Value]*Value) Value {
	switch x := v.(type) {
	case Ptr:
		if x.IsNil() {
			return x
		}
		if c, ok := memo[x.C]; ok {
			return Ptr{C: c, O: x.O}
		}
		c := new(Value)
		memo[x.C] = c
		*c = deepClone(*x.C, memo)
		return Ptr{C: c, O: &Obj{ID: 0, Site: "clone"}}
	case Struct:
		n := make(Struct, len(x))
		for i := range x {
			n[i] = deepClone(x[i], memo)
		}
		return n
	case Array:
		n := make(Array, len(x))
		for i := range x {
			n[i] = deepClone(x[i], memo)
		}
		return n
	case Slice:
		if x.Nil {
			return x
		}
		arr := make([]Value, x.Len)
		for i := range arr {
			arr[i] = deepClone(x.Arr[x.Off+i], memo)
		}
		return Slice{Arr: arr, Len: x.Len, Cap: x.Len, O: &Obj{Site: "clone"}}
	case *Map:
		if x == nil {
			return x
		}
		m := &Map{O: &Obj{Site: "clone"}}
		for _, e := range x.Entries {
			m.Entries = append(m.Entries, mapEntry{deepClone(e.K, memo), deepClone(e.V, memo)})
		}
		return m
	case Iface:
		return Iface{T: x.T, V: deepClone(x.V, memo)}
	}
	return v
}

func init() {
	reg := func(name string, f intrinsic) { intrinsics[name] = f }
	reg("os.Stat", func(ex *Exec, fn *ssa.Function, args []Value, site string) Value {
		fs := ex.fsys()
		p := pathTerm(args[0])
		if ex.fault("stat") {
			return Tuple{Iface{}, fsErr(site, "io")}
		}
		if d := ex.fsFind(fs.dirs, p); d != nil {
			return Tuple{Iface{T: absType, V: &fileInfoAbs{dir: true}}, Iface{}}
		}
		if f := ex.fsFind(fs.files, p); f != nil {
			return Tuple{Iface{T: absType, V: &fileInfoAbs{dir: false}}, Iface{}}
		}
		return Tuple{Iface{}, fsErr(site, "notexist")}
	})
	exists := func(ex *Exec, fn *ssa.Function, args []Value, site string) Value {
		fs := ex.fsys()
		p := pathTerm(args[0])
		return ex.fsFind(fs.dirs, p) != nil || ex.fsFind(fs.files, p) != nil
	}
	reg("sigs.k8s.io/release-utils/util.Exists", exists)
	reg("os.IsNotExist", func(ex *Exec, fn *ssa.Function, args []Value, site string) Value {
		e, ok := args[0].(Iface).V.(*errAbs)
		return ok && e.kind == "notexist"
	})
	reg("os.MkdirAll", func(ex *Exec, fn *ssa.Function, args []Value, site string) Value {
		fs := ex.fsys()
		p := pathTerm(args[0])
		ex.crashPoint()
		if ex.fault("mkdir") {
			return fsErr(site, "io")
		}
		if ex.decideBool(mkEq(p, mkStr(""))) {
			return fsErr(site, "notexist")
		}
		if ex.fsFind(fs.dirs, p) == nil {
			if ex.fsFind(fs.files, p) != nil {
				return fsErr(site, "notdir")
			}
			mode, ok := args[1].(int64)
			if !ok {
				panic(pathAbort{"unsupported: symbolic mode"})
			}
			fs.dirs = append(fs.dirs, &fsEnt{path: p, mode: mode})
		}
		ex.crashPoint()
		return Iface{}
	})
	// filepath.Clean on a symbolic path: decided into the shapes whose result is known exactly (a plain word, a plain
	// word with one trailing separator, a plain word behind "./"); every other shape ends the path (reported as cut)
	reg("path/filepath.Clean", func(ex *Exec, fn *ssa.Function, args []Value, site string) Value {
		if s, ok := args[0].(string); ok {
			return filepath.Clean(s)
		}
		t := strTerm(args[0])
		plain := func(x *Term) *Term { return mkStrOp("str.in_re", SBool, x, mkRaw(plainRe)) }
		n := mkStrOp("str.len", SInt, t)
		body := mkStrOp("str.substr", SStr, t, mkInt(0), mkArith("-", n, mkInt(1)))
		rest := mkStrOp("str.substr", SStr, t, mkInt(2), mkArith("-", n, mkInt(2)))
		alts := []*Term{
			plain(t),
			mkAnd(mkSuffixOf(mkStr("/"), t), plain(body)),
			mkAnd(mkPrefixOf(mkStr("./"), t), plain(rest)),
		}
		var none []*Term
		for _, a := range alts {
			none = append(none, mkNot(a))
		}
		alts = append(alts, mkAnd(none...))
		switch ex.choose(alts) {
		case 0:
			return lower(t)
		case 1:
			return lower(body)
		case 2:
			return lower(rest)
		}
		panic(pathAbort{"unsupported: filepath.Clean on this symbolic shape"})
	})
	reg("path/filepath.Join", func(ex *Exec, fn *ssa.Function, args []Value, site string) Value {
		parts := sliceVals(args[0])
		var out []*Term
		for _, p := range parts {
			t := strTerm(p)
			if t.Op == "cs" && t.S == "" {
				continue
			}
			if len(out) > 0 {
				out = append(out, mkStr("/"))
			}
			out = append(out, t)
		}
		return lower(mkConcat(out...))
	})
	// create: the parent directory must exist and be writable and searchable by its owner
	create := func(ex *Exec, path *Term, site string) (*fsEnt, Iface) {
		fs := ex.fsys()
		if f := ex.fsFind(fs.files, path); f != nil {
			d, _ := ex.parentOf(path)
			if d != nil && d.mode&0o100 == 0 {
				return nil, fsErr(site, "permission")
			}
			return f, Iface{}
		}
		d, _ := ex.parentOf(path)
		if d == nil {
			return nil, fsErr(site, "notexist")
		}
		if d.mode&0o300 != 0o300 {
			return nil, fsErr(site, "permission")
		}
		f := &fsEnt{path: path, mode: 0o644, content: &blobVal{torn: mkInt(0), n: mkInt(0)}}
		fs.files = append(fs.files, f)
		return f, Iface{}
	}
	writeBlob := func(ex *Exec, f *fsEnt, data Value, site string, keepOld bool) Iface {
		fs := ex.fsys()
		b, ok := data.(*blobVal)
		if !ok {
			panic(pathAbort{"unsupported: writing bytes that are not a protobuf encoding"})
		}
		if fs.armed && !ex.concreteMode() && ex.chooseFree(2) == 1 {
			// the process dies inside the write: only the first k bytes reach the file
			var k *Term
			if ex.concreteMode() {
				k = mkInt(0)
				ex.nondets = append(ex.nondets, nondetRec{Name: "torn", Kind: "int", T: k})
			} else {
				k = ex.freshVar("torn", SInt, "int", true)
				ex.assume(mkIntCmp("<=", mkInt(0), k))
				ex.assume(mkIntCmp("<", k, b.n))
			}
			if old, _ := f.content.(*blobVal); keepOld && old != nil && old.n != nil && old.n != mkInt(0) && old.torn == nil {
				// written over existing bytes without truncation: the first k new bytes followed by the old tail
				f.content = &blobVal{hybrid: true, doc: b.doc, typ: b.typ, n: old.n}
			} else {
				f.content = &blobVal{doc: b.doc, typ: b.typ, torn: k, n: b.n}
			}
			panic(crashEvent{})
		}
		f.content = b
		return Iface{}
	}
	reg("os.WriteFile", func(ex *Exec, fn *ssa.Function, args []Value, site string) Value {
		p := pathTerm(args[0])
		ex.crashPoint()
		if ex.fault("open") {
			return fsErr(site, "io")
		}
		f, err := create(ex, p, site)
		if err.T != nil {
			return err
		}
		// O_TRUNC: the file is empty from here on
		f.content = &blobVal{torn: mkInt(0), n: mkInt(0)}
		ex.crashPoint()
		if e := writeBlob(ex, f, args[1], site, false); e.T != nil {
			return e
		}
		ex.crashPoint()
		return Iface{}
	})
	reg("os.OpenFile", func(ex *Exec, fn *ssa.Function, args []Value, site string) Value {
		fs := ex.fsys()
		p := pathTerm(args[0])
		flags, ok := args[1].(int64)
		if !ok {
			panic(pathAbort{"unsupported: symbolic open flags"})
		}
		ex.crashPoint()
		if ex.fault("open") {
			return Tuple{Ptr{}, fsErr(site, "io")}
		}
		existing := ex.fsFind(fs.files, p)
		if existing != nil && flags&0x80 != 0 && flags&0x40 != 0 {
			return Tuple{Ptr{}, fsErr(site, "exist")}
		}
		if existing == nil && flags&0x40 == 0 {
			return Tuple{Ptr{}, fsErr(site, "notexist")}
		}
		f, err := create(ex, p, site)
		if err.T != nil {
			return Tuple{Ptr{}, err}
		}
		if flags&0x200 != 0 {
			f.content = &blobVal{torn: mkInt(0), n: mkInt(0)}
		}
		c := new(Value)
		*c = &fileAbs{ent: f, path: p, noTrunc: flags&0x200 == 0, appendMode: flags&0x400 != 0}
		ex.crashPoint()
		return Tuple{Ptr{C: c, O: ex.newObj(site)}, Iface{}}
	})
	reg("os.CreateTemp", func(ex *Exec, fn *ssa.Function, args []Value, site string) Value {
		fs := ex.fsys()
		dir := pathTerm(args[0])
		ex.crashPoint()
		if ex.fault("createtemp") {
			return Tuple{Ptr{}, fsErr(site, "io")}
		}
		fs.ntmp++
		// the name is the pattern with its last "*" replaced by a random decimal string (appended when there is none)
		var rnd *Term
		if ex.concreteMode() {
			rnd = mkStr(fmt.Sprintf("%d", 1000+fs.ntmp))
		} else {
			rnd = ex.freshVar("tmpname", SStr, "string", false)
			ex.assume(mkStrOp("str.in_re", SBool, rnd, mkRaw("(re.+ (re.range \"0\" \"9\"))")))
		}
		pat := catAtoms(strTerm(args[1]))
		var name []*Term
		placed := false
		for i := len(pat) - 1; i >= 0; i-- {
			a := pat[i]
			if !placed && a.Op == "cs" && strings.Contains(a.S, "*") {
				j := strings.LastIndex(a.S, "*")
				name = append([]*Term{mkStr(a.S[:j]), rnd, mkStr(a.S[j+1:])}, name...)
				placed = true
				continue
			}
			name = append([]*Term{a}, name...)
		}
		if !placed {
			name = append(name, rnd)
		}
		_ = fmt.Sprint
		path := mkConcat(append([]*Term{dir, mkStr("/")}, name...)...)
		for _, e := range fs.files {
			ex.assume(mkNot(mkEq(e.path, path))) // O_EXCL: the name is new
		}
		f, err := create(ex, path, site)
		if err.T != nil {
			return Tuple{Ptr{}, err}
		}
		f.mode = 0o600
		c := new(Value)
		*c = &fileAbs{ent: f, path: path}
		ex.crashPoint()
		return Tuple{Ptr{C: c, O: ex.newObj(site)}, Iface{}}
	})
	fileOf := func(v Value) *fileAbs {
		p := v.(Ptr)
		if p.IsNil() {
			return nil
		}
		f, _ := (*p.C).(*fileAbs)
		return f
	}
	reg("(*os.File).Name", func(ex *Exec, fn *ssa.Function, args []Value, site string) Value {
		f := fileOf(args[0])
		if f == nil {
			panic(goPanic{"nil *os.File", site})
		}
		return lower(f.path)
	})
	reg("(*os.File).Write", func(ex *Exec, fn *ssa.Function, args []Value, site string) Value {
		f := fileOf(args[0])
		if f == nil {
			return Tuple{int64(0), fsErr(site, "invalid")}
		}
		ex.crashPoint()
		if ex.fault("write") {
			return Tuple{int64(0), fsErr(site, "io")}
		}
		old, _ := f.ent.content.(*blobVal)
		if e := writeBlob(ex, f.ent, args[1], site, f.noTrunc); e.T != nil {
			return Tuple{int64(0), e}
		}
		if nb, _ := f.ent.content.(*blobVal); f.noTrunc && old != nil && nb != nil && old.n != nil && nb.n != nil {
			// written over the old bytes without truncation: if the old content was longer its tail survives
			longer := mkIntCmp("<", nb.n, old.n)
			if f.appendMode {
				longer = mkIntCmp("<", mkInt(0), old.n)
			}
			if ex.decideBool(longer) {
				f.ent.content = &blobVal{hybrid: true, doc: nb.doc, typ: nb.typ, n: old.n}
			}
		}
		ex.crashPoint()
		return Tuple{int64(1), Iface{}}
	})
	reg("(*os.File).Close", func(ex *Exec, fn *ssa.Function, args []Value, site string) Value {
		if ex.fault("close") {
			return fsErr(site, "io")
		}
		return Iface{}
	})
	reg("(*os.File).Truncate", func(ex *Exec, fn *ssa.Function, args []Value, site string) Value {
		f := fileOf(args[0])
		if f == nil {
			return fsErr(site, "invalid")
		}
		ex.crashPoint()
		// truncating to the length just written completes a non-truncating overwrite
		if b, _ := f.ent.content.(*blobVal); b != nil && b.hybrid && b.doc != nil {
			f.ent.content = &blobVal{doc: b.doc, typ: b.typ, n: b.n}
		}
		ex.crashPoint()
		return Iface{}
	})
	reg("(*os.File).Sync", func(ex *Exec, fn *ssa.Function, args []Value, site string) Value { return Iface{} })
	reg("os.Chmod", func(ex *Exec, fn *ssa.Function, args []Value, site string) Value {
		fs := ex.fsys()
		ex.crashPoint()
		if f := ex.fsFind(fs.files, pathTerm(args[0])); f != nil {
			if m, ok := args[1].(int64); ok {
				f.mode = m
			}
			return Iface{}
		}
		return fsErr(site, "notexist")
	})
	reg("os.Remove", func(ex *Exec, fn *ssa.Function, args []Value, site string) Value {
		fs := ex.fsys()
		ex.crashPoint()
		p := pathTerm(args[0])
		if f := ex.fsFind(fs.files, p); f != nil {
			for i, e := range fs.files {
				if e == f {
					fs.files = append(append([]*fsEnt{}, fs.files[:i]...), fs.files[i+1:]...)
					break
				}
			}
			return Iface{}
		}
		return fsErr(site, "notexist")
	})
	reg("os.Rename", func(ex *Exec, fn *ssa.Function, args []Value, site string) Value {
		fs := ex.fsys()
		ex.crashPoint()
		if ex.fault("rename") {
			return fsErr(site, "io")
		}
		from, to := pathTerm(args[0]), pathTerm(args[1])
		src := ex.fsFind(fs.files, from)
		if src == nil {
			return fsErr(site, "notexist")
		}
		d, _ := ex.parentOf(to)
		if d == nil {
			return fsErr(site, "notexist")
		}
		if d.mode&0o300 != 0o300 {
			return fsErr(site, "permission")
		}
		// atomic replacement
		if dst := ex.fsFind(fs.files, to); dst != nil && dst != src {
			for i, e := range fs.files {
				if e == dst {
					fs.files = append(append([]*fsEnt{}, fs.files[:i]...), fs.files[i+1:]...)
					break
				}
			}
		}
		src.path = to
		ex.crashPoint()
		return Iface{}
	})
	reg("os.ReadFile", func(ex *Exec, fn *ssa.Function, args []Value, site string) Value {
		fs := ex.fsys()
		p := pathTerm(args[0])
		if ex.fault("read") {
			return Tuple{Slice{Nil: true}, fsErr(site, "io")}
		}
		f := ex.fsFind(fs.files, p)
		if f == nil {
			return Tuple{Slice{Nil: true}, fsErr(site, "notexist")}
		}
		if d, _ := ex.parentOf(p); d != nil && d.mode&0o100 == 0 {
			return Tuple{Slice{Nil: true}, fsErr(site, "permission")}
		}
		if f.mode&0o400 == 0 {
			return Tuple{Slice{Nil: true}, fsErr(site, "permission")}
		}
		return Tuple{f.content, Iface{}}
	})
	reg("google.golang.org/protobuf/proto.Marshal", func(ex *Exec, fn *ssa.Function, args []Value, site string) Value {
		m := args[0].(Iface)
		p, ok := m.V.(Ptr)
		if !ok || p.IsNil() {
			return Tuple{&blobVal{torn: nil, n: mkInt(0)}, Iface{}}
		}
		// encoded length: a shape-dependent constant plus the lengths of all strings (exact for short strings)
		n := mkInt(2)
		var walk func(v Value, depth int)
		walk = func(v Value, depth int) {
			if depth > 12 {
				return
			}
			switch x := v.(type) {
			case string:
				if x != "" {
					n = mkArith("+", n, mkInt(int64(len(x)+2)))
				}
			case *Term:
				if x.Sort == SStr {
					n = mkArith("+", n, mkArith("+", mkStrLen(x), mkInt(2)))
				}
			case Ptr:
				if !x.IsNil() {
					n = mkArith("+", n, mkInt(2))
					walk(*x.C, depth+1)
				}
			case Struct:
				for _, e := range x {
					walk(e, depth+1)
				}
			case Slice:
				for i := 0; i < x.Len; i++ {
					walk(x.Arr[x.Off+i], depth+1)
				}
			case *Map:
				if x != nil {
					for _, e := range x.Entries {
						n = mkArith("+", n, mkInt(4))
						walk(e.V, depth+1)
					}
				}
			}
		}
		walk(*p.C, 0)
		return Tuple{&blobVal{doc: deepClone(*p.C, map[*Value]*Value{}), typ: m.T, n: n}, Iface{}}
	})
	reg("google.golang.org/protobuf/proto.Unmarshal", func(ex *Exec, fn *ssa.Function, args []Value, site string) Value {
		b, ok := args[0].(*blobVal)
		if !ok {
			if s, isS := args[0].(Slice); isS && s.Len == 0 {
				return Iface{} // empty input: the empty message
			}
			panic(pathAbort{"unsupported: proto.Unmarshal of raw bytes"})
		}
		m := args[1].(Iface)
		dst := m.V.(Ptr)
		if b.junk {
			return fsErr(site, "proto")
		}
		if b.hybrid {
			// the concatenation either fails to parse or parses as a merge of both messages: arbitrary content
			if ex.chooseFree(2) == 0 {
				return fsErr(site, "proto")
			}
			if b.doc != nil {
				assignCell(dst.C, deepClone(b.doc, map[*Value]*Value{}))
			}
			ex.havocCell(dst.C, b.typ.(*types.Pointer).Elem(), map[*Value]bool{}, 0)
			return Iface{}
		}
		if b.torn != nil {
			if ex.decideBool(mkEq(b.torn, mkInt(0))) {
				return Iface{} // zero bytes decode as the empty message
			}
			if b.doc == nil {
				return fsErr(site, "proto")
			}
			failed := b.midField || ex.chooseFree(2) == 0
			// torn exactly after the first top-level field: that field only, no error
			src := deepClone(b.doc, map[*Value]*Value{}).(Struct)
			st := b.typ.(*types.Pointer).Elem().Underlying().(*types.Struct)
			first := true
			for i := 0; i < st.NumFields(); i++ {
				if !st.Field(i).Exported() {
					continue
				}
				if first {
					first = false
					continue
				}
				src[i] = ex.zero(st.Field(i).Type())
			}
			assignCell(dst.C, src)
			if failed {
				// torn in the middle of a later field: the decoder fails, having filled what it had read so far
				return fsErr(site, "proto")
			}
			return Iface{}
		}
		if b.doc == nil {
			return Iface{}
		}
		assignCell(dst.C, deepClone(b.doc, map[*Value]*Value{}))
		return Iface{}
	})
}
