package main

import (
	"flag"
	"fmt"
	"go/ast"
	"go/token"
	"os"
	"path/filepath"
	"sort"
	"strconv"
	"strings"
	"time"

	"golang.org/x/tools/go/packages"
	"golang.org/x/tools/go/ssa"
	"golang.org/x/tools/go/ssa/ssautil"
)

func main() {
	entry := flag.String("entry", "H_Spike_Union", "harness function")
	hdir := flag.String("harness", "harness", "harness dir")
	maxPaths := flag.Int("maxpaths", 200000, "path cap")
	verbose := flag.Bool("v", false, "verbose")
	flag.BoolVar(&useCVC5, "cvc5", false, "use cvc5 instead of z3")
	shard := flag.Int("shard", 0, "shard index")
	of := flag.Int("of", 1, "number of shards")
	warm := flag.Int("warm", 64, "pending prefixes to reach before sharding")
	flag.Parse()

	t0 := time.Now()
	overlay := map[string][]byte{}
	for _, sub := range []string{"verifh", "verifrt"} {
		files, _ := filepath.Glob(filepath.Join(*hdir, sub, "*.go"))
		for _, f := range files {
			b, _ := os.ReadFile(f)
			overlay[filepath.Join("/repo/internal", sub, filepath.Base(f))] = b
		}
	}
	cfg := &packages.Config{Mode: packages.LoadAllSyntax, Dir: "/repo", Overlay: overlay}
	pkgs, err := packages.Load(cfg, "./internal/verifh")
	if err != nil {
		panic(err)
	}
	if packages.PrintErrors(pkgs) > 0 {
		os.Exit(2)
	}
	prog, spkgs := ssautil.AllPackages(pkgs, ssa.InstantiateGenerics)
	prog.Build()
	fn := spkgs[0].Func(*entry)
	if fn == nil {
		panic("no entry " + *entry)
	}
	enumTab := map[string]map[int64]string{}
	packages.Visit(pkgs, nil, func(p *packages.Package) {
		if p.PkgPath != "github.com/protobom/protobom/pkg/sbom" {
			return
		}
		for _, f := range p.Syntax {
			ast.Inspect(f, func(n ast.Node) bool {
				vs, ok := n.(*ast.ValueSpec)
				if !ok || len(vs.Names) != 1 || !strings.HasSuffix(vs.Names[0].Name, "_name") || len(vs.Values) != 1 {
					return true
				}
				cl, ok := vs.Values[0].(*ast.CompositeLit)
				if !ok {
					return true
				}
				tab := map[int64]string{}
				for _, e := range cl.Elts {
					kv := e.(*ast.KeyValueExpr)
					k, _ := strconv.ParseInt(kv.Key.(*ast.BasicLit).Value, 10, 64)
					v, _ := strconv.Unquote(kv.Value.(*ast.BasicLit).Value)
					tab[k] = v
				}
				enumTab[strings.TrimSuffix(vs.Names[0].Name, "_name")] = tab
				return true
			})
		}
	})
	_ = token.NoPos
	loadT := time.Since(t0)

	ex := &Exec{prog: prog, solver: NewSolver(10000), enumTab: enumTab, Unsupported: map[string]int{}, FuncsSeen: map[string]int{}, MaxSteps: 2000000}
	ex.work = [][]int{{}}
	abortReasons := map[string]int{}
	siteReachTotal := map[string]int{}
	t1 := time.Now()
	if *of > 1 {
		// deterministic breadth-first warm-up, identical in every shard
		for len(ex.work) > 0 && len(ex.work) < *warm {
			p := ex.work[0]
			ex.work = ex.work[1:]
			ex.runPath(fn, p, abortReasons)
		}
		var mine [][]int
		for i, p := range ex.work {
			if i%*of == *shard {
				mine = append(mine, p)
			}
		}
		warmPaths := ex.Paths
		ex.work = mine
		if *shard != 0 {
			// only shard 0 reports what the warm-up found
			ex.Violations = nil
			ex.Paths = 0
		}
		_ = warmPaths
	}
	for len(ex.work) > 0 && ex.Paths < *maxPaths {
		p := ex.work[len(ex.work)-1]
		ex.work = ex.work[:len(ex.work)-1]
		ex.runPath(fn, p, abortReasons)
		for s, n := range ex.siteReach {
			siteReachTotal[s] += n
		}
		if *verbose && ex.Paths%500 == 0 {
			fmt.Fprintf(os.Stderr, "paths=%d work=%d queries=%d\n", ex.Paths, len(ex.work), ex.solver.Queries)
		}
	}
	el := time.Since(t1)
	fmt.Printf("entry=%s load=%.1fs explore=%.1fs paths=%d aborted=%d remaining=%d\n", *entry, loadT.Seconds(), el.Seconds(), ex.Paths, ex.Aborted, len(ex.work))
	fmt.Printf("solver: queries=%d sat=%d unsat=%d unknown=%d time=%.1fs  discharged=%d\n", ex.solver.Queries, ex.solver.Sat, ex.solver.Unsat, ex.solver.Unknown, ex.solver.Time.Seconds(), ex.Discharged)
	fmt.Printf("query time histogram [<5ms,<20,<100,<500,<2000,>=2000]: %v slowest=%v q=%.300s\n", ex.solver.Hist, ex.solver.Slowest, ex.solver.SlowQ)
	fmt.Printf("abort reasons: %v\n", abortReasons)
	fmt.Printf("site reach: %v\n", siteReachTotal)
	var fs []string
	for f := range ex.FuncsSeen {
		fs = append(fs, f)
	}
	sort.Strings(fs)
	fmt.Printf("functions interpreted (%d): %s\n", len(fs), strings.Join(fs, ", "))
	seen := map[string]bool{}
	for _, v := range ex.Violations {
		k := v.Site + v.Kind + v.Msg
		if seen[k] {
			continue
		}
		seen[k] = true
		fmt.Printf("VIOLATION site=%s kind=%s msg=%s model=%v trace=%v\n", v.Site, v.Kind, v.Msg, v.Model, v.Trace)
	}
	fmt.Printf("violations total=%d distinct=%d\n", len(ex.Violations), len(seen))
	ex.solver.Close()
}

func (ex *Exec) runPath(fn *ssa.Function, prefix []int, abortReasons map[string]int) {
	ex.pc = nil
	ex.known = map[*Term]bool{}
	ex.synced = false
	ex.prefix = prefix
	ex.pos = 0
	ex.trace = nil
	ex.nvars = 0
	ex.varNames = nil
	ex.nobj = 0
	ex.steps = 0
	ex.depth = 0
	ex.globals = map[*ssa.Global]*Value{}
	ex.siteReach = map[string]int{}
	ex.MapAllOrder = false
	ex.Paths++
	defer func() {
		if r := recover(); r != nil {
			switch e := r.(type) {
			case pathAbort:
				ex.Aborted++
				k := e.reason
				if i := strings.Index(k, ":"); i > 0 && !strings.HasPrefix(k, "unsupported") {
					k = k[:i]
				}
				abortReasons[k]++
			case goPanic:
				var m map[string]string
				if ex.synced || len(ex.pc) > 0 {
					ex.sync()
					if ex.solver.Check(nil) == "sat" {
						m = ex.solver.Model(ex.varNames)
					}
				}
				ex.Violations = append(ex.Violations, Violation{Site: e.site, Kind: "panic", Msg: e.msg, Model: m, Trace: append([]int{}, ex.trace...)})
			default:
				panic(r)
			}
		}
	}()
	ex.callFn(fn, nil, nil, "entry")
}
