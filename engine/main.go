package main

import (
	"encoding/json"
	"flag"
	"fmt"
	"go/ast"
	"go/types"
	"os"
	"os/exec"
	"path/filepath"
	"runtime"
	"runtime/debug"
	"runtime/pprof"
	"sort"
	"strconv"
	"strings"
	"time"

	"golang.org/x/tools/go/packages"
	"golang.org/x/tools/go/ssa"
	"golang.org/x/tools/go/ssa/ssautil"
)

func verifRoot() string {
	if r := os.Getenv("VERIF_ROOT"); r != "" {
		return r
	}
	exe, err := os.Executable()
	if err == nil {
		d := filepath.Dir(filepath.Dir(exe))
		if _, err := os.Stat(filepath.Join(d, "harness")); err == nil {
			return d
		}
	}
	return "/verif"
}

type loaded struct {
	prog    *ssa.Program
	hpkg    *ssa.Package
	enumTab map[string]map[int64]string
	loadT   time.Duration
}

func load(root string) *loaded {
	t0 := time.Now()
	overlay := map[string][]byte{}
	add := func(dir, virt string) {
		files, _ := filepath.Glob(filepath.Join(root, "harness", dir, "*.go"))
		for _, f := range files {
			b, _ := os.ReadFile(f)
			overlay[filepath.Join(repoDir(), "internal", virt, filepath.Base(f))] = b
		}
	}
	add("verifh", "verifh")
	add("verifrt_sym", "verifrt")
	cfg := &packages.Config{Mode: packages.LoadAllSyntax, Dir: repoDir(), Overlay: overlay,
		Env: append(os.Environ(), "GOFLAGS=-mod=mod", "GOPROXY=off", "GOSUMDB=off", "GOTOOLCHAIN=local")}
	pkgs, err := packages.Load(cfg, "./internal/verifh")
	if err != nil {
		fmt.Fprintln(os.Stderr, "ERROR load:", err)
		os.Exit(2)
	}
	if packages.PrintErrors(pkgs) > 0 {
		fmt.Fprintln(os.Stderr, "ERROR: "+repoDir()+" (with harness overlay) does not type-check")
		os.Exit(2)
	}
	prog, spkgs := ssautil.AllPackages(pkgs, ssa.InstantiateGenerics)
	prog.Build()
	enumTab := map[string]map[int64]string{}
	packages.Visit(pkgs, nil, func(p *packages.Package) {
		if p.PkgPath != "github.com/protobom/protobom/pkg/sbom" {
			return
		}
		for _, f := range p.Syntax {
			ast.Inspect(f, func(n ast.Node) bool {
				vs, ok := n.(*ast.ValueSpec)
				if !ok || len(vs.Names) != 1 || !strings.HasSuffix(vs.Names[0].Name, "_name") || len(vs.Values) != 1 {
					return true
				}
				cl, ok := vs.Values[0].(*ast.CompositeLit)
				if !ok {
					return true
				}
				tab := map[int64]string{}
				for _, e := range cl.Elts {
					kv, ok := e.(*ast.KeyValueExpr)
					if !ok {
						continue
					}
					kl, ok1 := kv.Key.(*ast.BasicLit)
					vl, ok2 := kv.Value.(*ast.BasicLit)
					if !ok1 || !ok2 {
						continue
					}
					k, _ := strconv.ParseInt(kl.Value, 10, 64)
					v, _ := strconv.Unquote(vl.Value)
					tab[k] = v
				}
				enumTab[strings.TrimSuffix(vs.Names[0].Name, "_name")] = tab
				return true
			})
		}
	})
	return &loaded{prog: prog, hpkg: spkgs[0], enumTab: enumTab, loadT: time.Since(t0)}
}

func repoHead() string {
	out, _ := exec.Command("git", "-C", repoDir(), "rev-parse", "--short", "HEAD").Output()
	h := strings.TrimSpace(string(out))
	st, _ := exec.Command("git", "-C", repoDir(), "status", "--porcelain").Output()
	if len(strings.TrimSpace(string(st))) > 0 {
		h += "+dirty"
	}
	return h
}

func main() {
	var cfg Config
	flag.StringVar(&cfg.Prop, "prop", "", "property id (C01..C20)")
	flag.StringVar(&cfg.Tier, "tier", "quick", "quick | thorough")
	flag.IntVar(&cfg.Workers, "workers", runtime.NumCPU(), "worker count")
	flag.IntVar(&cfg.TimeoutMs, "timeout", 0, "per-query solver timeout in ms (default 10000 quick / 60000 thorough)")
	flag.IntVar(&cfg.MaxPaths, "maxpaths", 0, "per-harness path cap (safety net)")
	flag.IntVar(&cfg.MaxSteps, "maxsteps", 3000000, "per-path instruction cap")
	flag.IntVar(&cfg.MaxDepth, "maxdepth", 120, "call depth cap")
	flag.BoolVar(&cfg.Verbose, "v", false, "verbose")
	flag.StringVar(&cfg.Only, "only", "", "run only harnesses whose name contains this")
	flag.StringVar(&cfg.AssertMode, "assertmode", "now", "now | batch")
	flag.StringVar(&cfg.CrossCheck, "crosscheck", "", "each | sample | off: second solver (z3) on every / every 8th / no property query proved by cvc5 (default: sample for quick, each for thorough)")
	flag.IntVar(&cfg.AuditEvery, "audit", 16, "confirm every n-th rewriting-decided answer with cvc5 (0 = never)")
	flag.BoolVar(&cfg.NoFast, "nofast", false, "disable verified-model feasibility shortcuts (every feasibility question goes to the solver)")
	replayPath := flag.String("replay", "", "replay a recorded counterexample natively")
	noSelf := flag.Bool("noselftest", false, "skip the concrete differential self-test")
	budget := flag.Duration("budget", 0, "wall-clock budget for exploration (0 = none)")
	hbudget := flag.Duration("hbudget", -1, "wall-clock budget per harness, for the deep pass of the thorough tier (default 5m; 0 = none)")
	cpuprof := flag.String("cpuprofile", "", "write a CPU profile")
	flag.Parse()
	if *cpuprof != "" {
		f, _ := os.Create(*cpuprof)
		pprof.StartCPUProfile(f)
		defer pprof.StopCPUProfile()
	}
	if s := os.Getenv("VERIF_SEED"); s != "" {
		cfg.Seed, _ = strconv.ParseInt(s, 10, 64)
	}
	if t := os.Getenv("VERIF_TIER"); t != "" && cfg.Tier == "" {
		cfg.Tier = t
	}
	if cfg.TimeoutMs == 0 {
		cfg.TimeoutMs = 10000
		if cfg.Tier == "thorough" {
			cfg.TimeoutMs = 25000
		}
	}
	cfg.ZTimeoutMs = cfg.TimeoutMs
	cfg.CTimeoutMs = cfg.TimeoutMs / 5
	if cfg.CrossCheck == "" {
		cfg.CrossCheck = "sample"
		if cfg.Tier == "thorough" {
			cfg.CrossCheck = "each"
		}
	}
	if cfg.MaxPaths == 0 {
		cfg.MaxPaths = 400000
		if cfg.Tier == "thorough" {
			cfg.MaxPaths = 6000000
		}
	}
	if v := os.Getenv("VERIF_WORKERS"); v != "" {
		fmt.Sscanf(v, "%d", &cfg.Workers) // experiments / running next to another job; the registered commands do not set it
	}
	if *budget > 0 {
		cfg.Deadline = time.Now().Add(*budget)
	}
	cfg.HBudget = *hbudget
	if *hbudget < 0 {
		cfg.HBudget = 0
		if cfg.Tier == "thorough" {
			cfg.HBudget = 5 * time.Minute
		}
	}
	if os.Getenv("GOGC") == "" {
		debug.SetGCPercent(600)
	}
	if os.Getenv("GOMEMLIMIT") == "" {
		// a soft ceiling for the Go heap: with the lazy collection above a long deep pass otherwise grows to tens of
		// gigabytes of garbage (one thorough run was killed by the kernel at 65 GB)
		debug.SetMemoryLimit(16 << 30)
	}
	prefault()
	root := verifRoot()
	t0 := time.Now()
	ld := load(root)

	var names []string
	var hs []*Harness
	for n, m := range ld.hpkg.Members {
		f, ok := m.(*ssa.Function)
		if !ok || !strings.HasPrefix(n, "H_") {
			continue
		}
		names = append(names, n)
		parts := strings.SplitN(n, "_", 3)
		if len(parts) < 3 {
			continue
		}
		if parts[1] == cfg.Prop && (cfg.Only == "" || strings.Contains(n, cfg.Only)) {
			hs = append(hs, &Harness{Name: n, Prop: parts[1], Fn: f})
		}
	}
	sort.Slice(hs, func(i, j int) bool { return hs[i].Name < hs[j].Name })
	if cfg.Tier == "thorough" {
		// two passes per harness: the quick bounds exhaustively (with the thorough solver policy), then the larger
		// bounds under the per-harness time budget
		var two []*Harness
		for _, h := range hs {
			two = append(two, h, &Harness{Name: h.Name + "@deep", Prop: h.Prop, Fn: h.Fn, Deep: true, Base: h})
		}
		hs = two
	}
	nb := &nativeBuild{root: root, names: names, race: cfg.Prop == "C17"}
	defer nb.cleanup()

	if *replayPath != "" {
		os.Exit(replayOnly(nb, *replayPath))
	}
	if len(hs) == 0 {
		fmt.Fprintf(os.Stderr, "ERROR: no harness for property %q\n", cfg.Prop)
		os.Exit(2)
	}

	sh := &Shared{cfg: cfg, prog: ld.prog, hpkg: ld.hpkg, enumTab: ld.enumTab, known: loadKnown(filepath.Join(root, "known_findings.json")), hs: hs}
	sh.jsonUTE, sh.jType, sh.streamType = ld.lookupTypes()
	sh.explore()
	exploreT := time.Since(t0) - ld.loadT

	rep := &report{cfg: cfg, sh: sh, root: root, nb: nb, loadT: ld.loadT, exploreT: exploreT, head: repoHead()}
	if hp := os.Getenv("VERIF_HEAPPROFILE"); hp != "" {
		if f, err := os.Create(hp); err == nil {
			runtime.GC()
			pprof.WriteHeapProfile(f)
			f.Close()
		}
	}
	rep.processViolations()
	if !*noSelf {
		rep.selftest(ld)
	}
	rep.wall = time.Since(t0)
	code := rep.finish()
	nb.cleanup()
	pprof.StopCPUProfile()
	os.Exit(code)
}

func replayOnly(nb *nativeBuild, path string) int {
	b, err := os.ReadFile(path)
	if err != nil {
		fmt.Fprintln(os.Stderr, "ERROR:", err)
		return 2
	}
	var rf ReplayFile
	if err := json.Unmarshal(b, &rf); err != nil {
		fmt.Fprintln(os.Stderr, "ERROR:", err)
		return 2
	}
	if err := nb.build(); err != nil {
		fmt.Fprintln(os.Stderr, "ERROR:", err)
		return 2
	}
	r := nb.confirm(&rf, path, 50)
	fmt.Printf("replay harness=%s site=%s kind=%s reproduced=%v tries=%d failed=%v panic=%q invalid=%q\n", rf.Harness, rf.Site, rf.Kind, r.Reproduced, r.Tries, r.Failed, firstLine(r.Panic), r.Invalid)
	if r.Reproduced {
		fmt.Printf("VIOLATION property=%s replay=%s\n", rf.Property, path)
		return 1
	}
	return 0
}

func firstLine(s string) string {
	if i := strings.IndexByte(s, '\n'); i >= 0 {
		return s[:i]
	}
	return s
}

func (ld *loaded) lookupTypes() (ute, jt, st types.Type) {
	for _, p := range ld.prog.AllPackages() {
		switch p.Pkg.Path() {
		case "encoding/json":
			if o := p.Pkg.Scope().Lookup("UnmarshalTypeError"); o != nil {
				ute = o.Type()
			}
		case "github.com/protobom/protobom/internal/verifrt":
			if o := p.Pkg.Scope().Lookup("J"); o != nil {
				jt = o.Type()
			}
			if o := p.Pkg.Scope().Lookup("Stream"); o != nil {
				st = o.Type()
			}
		}
	}
	return
}

// prefault touches a block of heap from one thread before the parallel phases start. On virtualised hosts where
// first-touch page faults from many threads of one process contend badly (observed: 16 threads 40x slower per fault
// than one), this moves the faults to the cheap single-threaded regime; the freed block is then reused by the heap.
// VERIF_PREFAULT_MB=0 switches it off.
func prefault() {
	mb := 1536
	if v := os.Getenv("VERIF_PREFAULT_MB"); v != "" {
		fmt.Sscanf(v, "%d", &mb)
	}
	if mb <= 0 {
		return
	}
	var keep [][]byte
	for i := 0; i < mb/16; i++ {
		b := make([]byte, 16<<20)
		for j := 0; j < len(b); j += 4096 {
			b[j] = 1
		}
		keep = append(keep, b)
	}
	runtime.KeepAlive(keep)
}

// repoDir: the tree under verification: /repo, or the snapshot a background run was given (VP_RUN_REPO / VERIF_REPO).
func repoDir() string {
	for _, k := range []string{"VERIF_REPO", "VP_RUN_REPO"} {
		if v := os.Getenv(k); v != "" {
			return v
		}
	}
	return "/repo"
}
