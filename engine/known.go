package main

import (
	"encoding/json"
	"os"
	"strings"
)

// KnownFinding is one entry of /verif/known_findings.json (read-only at run time).
type KnownFinding struct {
	Status   string `json:"status"` // "known" | "fixed"
	Property string `json:"property"`
	Site     string `json:"site"`
	Region   string `json:"region,omitempty"`
	What     string `json:"what"`
	Commit   string `json:"commit,omitempty"`
	Witness  string `json:"witness,omitempty"`
}

type KnownFindings struct {
	Entries []KnownFinding
}

func loadKnown(path string) *KnownFindings {
	k := &KnownFindings{}
	b, err := os.ReadFile(path)
	if err != nil {
		return k
	}
	if err := json.Unmarshal(b, &k.Entries); err != nil {
		panic("known_findings.json: " + err.Error())
	}
	return k
}

// regionsFor lists the region names of findings with status "known" for (property, site).
func (k *KnownFindings) regionsFor(prop, site string) []string {
	var out []string
	for _, e := range k.Entries {
		if e.Status == "known" && e.Property == prop && siteMatch(e.Site, site) && e.Region != "" {
			out = append(out, e.Region)
		}
	}
	return out
}

func (k *KnownFindings) find(prop, site, region string) *KnownFinding {
	for i, e := range k.Entries {
		if e.Status == "known" && e.Property == prop && siteMatch(e.Site, site) && e.Region == region {
			return &k.Entries[i]
		}
	}
	return nil
}

// siteMatch: exact, or a trailing * in the listed site matches any suffix.
func siteMatch(pattern, site string) bool {
	if strings.HasSuffix(pattern, "*") {
		return strings.HasPrefix(site, strings.TrimSuffix(pattern, "*"))
	}
	return pattern == site
}
