package main

import (
	"fmt"
	"go/types"

	"golang.org/x/tools/go/ssa"
)

// Value is one of:
//
//	bool, int64, float64, string           concrete scalars
//	*Term                                   symbolic bool / int / string
//	Ptr, Struct, Array, Slice, *Map, Iface, *Closure, *ssa.Function, *ssa.Builtin, Tuple, *MapIter
//	abstract environment values (absInvoker implementations, TimeVal, ...)
type Value interface{}

type Obj struct {
	ID     int
	Site   string
	Epoch  int  // 0 = harness/setup, 1 = under test
	Frozen bool // write-set monitor: stores into this object are violations
	Shared bool // lock-set monitor: object existed before the concurrent calls
}

type Ptr struct {
	C *Value
	O *Obj
}

func (p Ptr) IsNil() bool { return p.C == nil }

type Struct []Value
type Array []Value
type Tuple []Value

type Slice struct {
	Arr []Value // full backing store (len(Arr) == capacity of the allocation)
	Off int
	Len int
	Cap int
	O   *Obj
	Nil bool
}

type mapEntry struct {
	K, V Value
}

type Map struct {
	Entries []mapEntry
	O       *Obj
}

type Iface struct {
	T types.Type
	V Value
}

type Closure struct {
	Fn  *ssa.Function
	Env []Value
}

type MapIter struct {
	Entries []mapEntry
	Pos     int
	Str     *string
}

func copyVal(v Value) Value {
	switch x := v.(type) {
	case Struct:
		n := make(Struct, len(x))
		for i := range x {
			n[i] = copyVal(x[i])
		}
		return n
	case Array:
		n := make(Array, len(x))
		for i := range x {
			n[i] = copyVal(x[i])
		}
		return n
	}
	return v
}

// assignCell stores v into *dst; aggregates are assigned element-wise in place so that
// pointers to fields/elements obtained earlier stay valid.
func assignCell(dst *Value, v Value) {
	switch x := v.(type) {
	case Struct:
		if d, ok := (*dst).(Struct); ok && len(d) == len(x) {
			for i := range x {
				assignCell(&d[i], x[i])
			}
			return
		}
	case Array:
		if d, ok := (*dst).(Array); ok && len(d) == len(x) {
			for i := range x {
				assignCell(&d[i], x[i])
			}
			return
		}
	}
	*dst = copyVal(v)
}

func (ex *Exec) zero(t types.Type) Value {
	if z, ok := absZero(t); ok {
		return z
	}
	switch u := t.Underlying().(type) {
	case *types.Basic:
		switch {
		case u.Info()&types.IsBoolean != 0:
			return false
		case u.Info()&types.IsInteger != 0:
			return int64(0)
		case u.Info()&types.IsFloat != 0:
			return float64(0)
		case u.Info()&types.IsString != 0:
			return ""
		case u.Kind() == types.UnsafePointer:
			return Ptr{}
		case u.Kind() == types.UntypedNil:
			return nil
		}
	case *types.Pointer:
		return Ptr{}
	case *types.Slice:
		return Slice{Nil: true}
	case *types.Map:
		return (*Map)(nil)
	case *types.Struct:
		s := make(Struct, u.NumFields())
		for i := range s {
			s[i] = ex.zero(u.Field(i).Type())
		}
		return s
	case *types.Array:
		a := make(Array, u.Len())
		for i := range a {
			a[i] = ex.zero(u.Elem())
		}
		return a
	case *types.Interface:
		return Iface{}
	case *types.Signature:
		return (*Closure)(nil)
	case *types.Chan:
		return nil
	case *types.Tuple:
		tu := make(Tuple, u.Len())
		for i := range tu {
			tu[i] = ex.zero(u.At(i).Type())
		}
		return tu
	case *types.TypeParam:
		return nil
	}
	panic(fmt.Sprintf("zero: unsupported type %s", t))
}

func isStringType(t types.Type) bool {
	b, ok := t.Underlying().(*types.Basic)
	return ok && b.Info()&types.IsString != 0
}

func isIntType(t types.Type) bool {
	b, ok := t.Underlying().(*types.Basic)
	return ok && b.Info()&types.IsInteger != 0
}

func isBoolType(t types.Type) bool {
	b, ok := t.Underlying().(*types.Basic)
	return ok && b.Info()&types.IsBoolean != 0
}

func isFloatType(t types.Type) bool {
	b, ok := t.Underlying().(*types.Basic)
	return ok && b.Info()&types.IsFloat != 0
}

// term conversions
func strTerm(v Value) *Term {
	switch x := v.(type) {
	case string:
		return mkStr(x)
	case *Term:
		return x
	}
	panic(fmt.Sprintf("strTerm: %T", v))
}

func intTerm(v Value) *Term {
	switch x := v.(type) {
	case int64:
		return mkInt(x)
	case *Term:
		return x
	}
	panic(fmt.Sprintf("intTerm: %T", v))
}

func boolTerm(v Value) *Term {
	switch x := v.(type) {
	case bool:
		return mkBool(x)
	case *Term:
		return x
	}
	panic(fmt.Sprintf("boolTerm: %T", v))
}

// lower turns constant terms back into concrete Go values.
func lower(t *Term) Value {
	switch t.Op {
	case "cs":
		return t.S
	case "ci":
		return t.I
	case "cb":
		return t.B
	}
	return t
}

func wrapInt(v int64, t types.Type) int64 {
	b, ok := t.Underlying().(*types.Basic)
	if !ok {
		return v
	}
	switch b.Kind() {
	case types.Int8:
		return int64(int8(v))
	case types.Int16:
		return int64(int16(v))
	case types.Int32:
		return int64(int32(v))
	case types.Uint8:
		return int64(uint8(v))
	case types.Uint16:
		return int64(uint16(v))
	case types.Uint32:
		return int64(uint32(v))
	}
	return v
}

func typeName(t types.Type) string {
	if p, ok := t.(*types.Pointer); ok {
		return "*" + typeName(p.Elem())
	}
	if n, ok := t.(*types.Named); ok {
		if n.Obj().Pkg() != nil {
			return n.Obj().Pkg().Path() + "." + n.Obj().Name()
		}
		return n.Obj().Name()
	}
	return t.String()
}
