package main

// locksetMon records shared-memory accesses with the lock-set held (C17). Filled in by Par2.
type locksetMon struct {
	thread int
	held   map[*Value]int // lock cell -> 1 read-held, 2 write-held
	events []lsEvent
	once   bool // inside sync.Once.Do
}

type lsEvent struct {
	thread int
	obj    *Obj
	cell   *Value
	write  bool
	site   string
	locks  map[*Value]int
	once   bool
}

func (m *monitors) access(ex *Exec, o *Obj, cell *Value, write bool, site string) {
	ls := m.lockset
	if ls == nil || o == nil || !o.Shared {
		return
	}
	held := make(map[*Value]int, len(ls.held))
	for k, v := range ls.held {
		held[k] = v
	}
	ls.events = append(ls.events, lsEvent{thread: ls.thread, obj: o, cell: cell, write: write, site: site, locks: held, once: ls.once})
}
