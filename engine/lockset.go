package main

import "fmt"

// locksetMon records shared-memory accesses with the lock-set held (C17). Filled in by Par2.
type locksetMon struct {
	thread int
	held   map[*Value]int // lock cell -> 1 read-held, 2 write-held
	events []lsEvent
	once   int // >0: inside sync.Once.Do
	onceOf map[*Value]bool
	call   int // current API call (verifrt.Call), 0 = outside
	ncall  int
	nacq   int
	acq    map[*Value]int // lock cell -> id of the current acquisition
	pending func()        // the second goroutine, not yet run
}

type lsEvent struct {
	thread int
	obj    *Obj
	cell   *Value
	write  bool
	atomic bool
	site   string
	locks  map[*Value]int
	acqs   map[*Value]int
	once   bool
	call   int
}

func (m *monitors) record(ex *Exec, o *Obj, cell *Value, write, atomic bool, site string) {
	ls := m.lockset
	if ls == nil || o == nil || !o.Shared || ex.inInit > 0 {
		return
	}
	held := make(map[*Value]int, len(ls.held))
	for k, v := range ls.held {
		held[k] = v
	}
	acqs := make(map[*Value]int, len(ls.acq))
	for k, v := range ls.acq {
		acqs[k] = v
	}
	ls.events = append(ls.events, lsEvent{thread: ls.thread, obj: o, cell: cell, write: write, atomic: atomic, site: site, locks: held, acqs: acqs, once: ls.once > 0, call: ls.call})
}

func (m *monitors) access(ex *Exec, o *Obj, cell *Value, write bool, site string) {
	m.record(ex, o, cell, write, false, site)
}

func (m *monitors) atomicAccess(ex *Exec, o *Obj, write bool, site string) {
	m.record(ex, o, nil, write, true, site)
}

func (m *monitors) lockOp(ex *Exec, p Ptr, mode int, acquire bool) {
	ls := m.lockset
	if acquire {
		ls.held[p.C] = mode
		ls.nacq++
		ls.acq[p.C] = ls.nacq
	} else {
		delete(ls.held, p.C)
		delete(ls.acq, p.C)
	}
}

func (m *monitors) onceEnter(ex *Exec, p Ptr) { m.lockset.once++ }
func (m *monitors) onceLeave(ex *Exec, p Ptr) { m.lockset.once-- }

// races: pairs of events from different threads on the same location, at least one a plain write, with no common
// lock held in a mode that excludes the other (read locks do not exclude reads), not both inside a sync.Once body.
func (ls *locksetMon) races() []string {
	var out []string
	seen := map[string]bool{}
	for i, a := range ls.events {
		for _, b := range ls.events[i+1:] {
			if a.thread == b.thread || a.obj != b.obj {
				continue
			}
			// different cells of the same object are different locations, except for maps (cell == nil: the whole map)
			if a.cell != nil && b.cell != nil && a.cell != b.cell {
				continue
			}
			if !a.write && !b.write {
				continue
			}
			if a.atomic && b.atomic {
				continue
			}
			if a.once && b.once {
				continue // sync.Once orders its body before every later Do return
			}
			protected := false
			for l, ma := range a.locks {
				if mb, ok := b.locks[l]; ok && (ma == 2 || mb == 2) {
					protected = true
				}
			}
			if protected {
				continue
			}
			k := fmt.Sprintf("%s: %s (%s) / %s (%s)", a.obj.Site, a.site, rw(a.write), b.site, rw(b.write))
			if !seen[k] {
				seen[k] = true
				out = append(out, k)
			}
		}
	}
	return out
}

func rw(w bool) string {
	if w {
		return "write"
	}
	return "read"
}

// nonAtomic: API calls whose accesses to one shared object are spread over several atomic operations or several
// critical sections (check-then-act): such a call need not be equivalent to any sequential order.
func (ls *locksetMon) nonAtomic() []string {
	type key struct {
		call int
		obj  *Obj
	}
	units := map[key]map[string]bool{}
	sites := map[key]string{}
	for _, e := range ls.events {
		if e.call == 0 || e.once {
			continue
		}
		k := key{e.call, e.obj}
		if units[k] == nil {
			units[k] = map[string]bool{}
		}
		var u string
		if e.atomic {
			u = fmt.Sprintf("atomic@%p#%d", e.obj, len(units[k]))
		} else if len(e.acqs) > 0 {
			best := 0
			for _, id := range e.acqs {
				if id > best {
					best = id
				}
			}
			u = fmt.Sprintf("cs%d", best)
		} else {
			u = "unlocked" // plain unlocked accesses are the race check's business
		}
		units[k][u] = true
		sites[k] = e.obj.Site + " at " + e.site
	}
	var out []string
	for k, us := range units {
		n := 0
		for u := range us {
			if u != "unlocked" {
				n++
			}
		}
		if n > 1 {
			out = append(out, fmt.Sprintf("%d separate atomic steps on %s within one call", n, sites[k]))
		}
	}
	return out
}
