package main

import (
	"encoding/json"
	"fmt"
	"go/types"
	"reflect"
	"sort"
	"strings"

	"golang.org/x/tools/go/ssa"
)

// Abstract JSON: the text layer of encoding/json is cut at the JSON value tree. Bytes produced by an encoder are a
// handle (jsonBytes) to a tree whose leaves may be symbolic; decoding follows the documented rules of encoding/json,
// driven by go/types and the struct tags of the current source. Types with MarshalJSON / UnmarshalJSON get their real
// methods interpreted. Assumed (trusted base): encode→decode of JSON text is the identity on value trees for
// escape-free strings; layout (white space, member order, escapes) is not modelled.

const (
	jNull = iota
	jBool
	jNum
	jStr
	jArr
	jObj
)

type jval struct {
	kind  int
	v     Value // bool / int64|float64|*Term / string|*Term
	items []*jval
	keys  []string
}

// jsonBytes is the []byte value holding one encoded JSON text.
type jsonBytes struct{ tree *jval }

type jsonCtx struct {
	ex      *Exec
	site    string
	typeErr *Iface // first UnmarshalTypeError
}

// ---------------------------------------------------------------- tags

type jfield struct {
	name      string
	index     int
	omitempty bool
	typ       types.Type
	embedded  bool
}

func jsonFields(st *types.Struct) []jfield {
	var out []jfield
	for i := 0; i < st.NumFields(); i++ {
		f := st.Field(i)
		tag := reflect.StructTag(st.Tag(i)).Get("json")
		if tag == "-" {
			continue
		}
		if !f.Exported() && !f.Embedded() {
			continue
		}
		name, opts, _ := strings.Cut(tag, ",")
		jf := jfield{name: name, index: i, typ: f.Type(), omitempty: strings.Contains(","+opts+",", ",omitempty,")}
		if jf.name == "" {
			if f.Embedded() {
				if _, ok := derefType(f.Type()).Underlying().(*types.Struct); ok {
					jf.embedded = true
				}
			}
			jf.name = f.Name()
		}
		if !f.Exported() && !jf.embedded {
			continue
		}
		out = append(out, jf)
	}
	return out
}

func derefType(t types.Type) types.Type {
	if p, ok := t.Underlying().(*types.Pointer); ok {
		return p.Elem()
	}
	return t
}

func (ex *Exec) findMethod(t types.Type, name string) *ssa.Function {
	ms := ex.prog.MethodSets.MethodSet(t)
	for i := 0; i < ms.Len(); i++ {
		sel := ms.At(i)
		if sel.Obj().Name() == name {
			return ex.prog.MethodValue(sel)
		}
	}
	return nil
}

// ---------------------------------------------------------------- encoding

func (c *jsonCtx) emptyValue(v Value, t types.Type) bool {
	ex := c.ex
	switch x := v.(type) {
	case bool:
		return !x
	case int64:
		return x == 0
	case float64:
		return x == 0
	case string:
		return x == ""
	case *Term:
		switch x.Sort {
		case SStr:
			return ex.decideBool(mkEq(x, mkStr("")))
		case SInt:
			return ex.decideBool(mkEq(x, mkInt(0)))
		case SBool:
			return !ex.decideBool(x)
		}
	case Ptr:
		return x.IsNil()
	case Slice:
		return x.Len == 0
	case *Map:
		return x == nil || len(x.Entries) == 0
	case Iface:
		return x.T == nil
	case Array:
		return len(x) == 0
	}
	return false
}

// encode returns the JSON tree of v (of static type t). err is a Go error value (Iface) when a marshaler failed.
func (c *jsonCtx) encode(v Value, t types.Type, depth int) (*jval, *Iface) {
	ex := c.ex
	if depth > 40 {
		panic(pathAbort{"unwind: json encoding depth"})
	}
	if iv, ok := v.(Iface); ok {
		if iv.T == nil {
			return &jval{kind: jNull}, nil
		}
		return c.encode(iv.V, iv.T, depth+1)
	}
	// nil pointers encode as null before any marshaler is considered
	if p, ok := v.(Ptr); ok {
		if _, isPtr := t.Underlying().(*types.Pointer); isPtr && p.IsNil() {
			return &jval{kind: jNull}, nil
		}
	}
	// custom marshaler on t, or (for a value we can address) on *t
	var mfn *ssa.Function
	recv := v
	if fn := ex.findMethod(t, "MarshalJSON"); fn != nil {
		mfn = fn
	} else if _, isPtr := t.Underlying().(*types.Pointer); !isPtr {
		if _, isIface := t.Underlying().(*types.Interface); !isIface {
			if fn := ex.findMethod(types.NewPointer(t), "MarshalJSON"); fn != nil {
				mfn = fn
				cell := new(Value)
				*cell = copyVal(v)
				recv = Ptr{C: cell, O: ex.newObj("json-addr")}
			}
		}
	}
	if mfn != nil && mfn.Blocks != nil && allowedPkg(fnPkgPath(mfn)) {
		res := ex.callFn(mfn, []Value{recv}, nil, c.site).(Tuple)
		if e := res[1].(Iface); e.T != nil {
			return nil, &e
		}
		switch b := res[0].(type) {
		case *jsonBytes:
			return b.tree, nil
		case Slice:
			if b.Len == 0 {
				e := mkErr(c.site, "json: error calling MarshalJSON: unexpected end of JSON input")
				return nil, &e
			}
			raw := make([]byte, b.Len)
			for i := range raw {
				raw[i] = byte(b.Arr[b.Off+i].(int64))
			}
			tr, err := parseJSONText(raw)
			if err != nil {
				e := mkErr(c.site, "json: error calling MarshalJSON")
				return nil, &e
			}
			return tr, nil
		}
		panic(pathAbort{fmt.Sprintf("unsupported: MarshalJSON result %T", res[0])})
	}
	switch u := t.Underlying().(type) {
	case *types.Basic:
		switch {
		case u.Info()&types.IsString != 0:
			return &jval{kind: jStr, v: v}, nil
		case u.Info()&types.IsBoolean != 0:
			return &jval{kind: jBool, v: v}, nil
		case u.Info()&types.IsNumeric != 0:
			return &jval{kind: jNum, v: v}, nil
		}
	case *types.Pointer:
		p := v.(Ptr)
		return c.encode(*p.C, u.Elem(), depth+1)
	case *types.Struct:
		sv, ok := v.(Struct)
		if !ok {
			panic(pathAbort{fmt.Sprintf("unsupported: json encoding of abstract value %T (%s)", v, t)})
		}
		out := &jval{kind: jObj}
		c.encodeFields(out, sv, u, depth)
		return out, nil
	case *types.Slice:
		s := v.(Slice)
		if s.Nil {
			return &jval{kind: jNull}, nil
		}
		if b, ok := u.Elem().Underlying().(*types.Basic); ok && b.Kind() == types.Uint8 {
			panic(pathAbort{"unsupported: json encoding of []byte"})
		}
		out := &jval{kind: jArr}
		for i := 0; i < s.Len; i++ {
			e, err := c.encode(s.Arr[s.Off+i], u.Elem(), depth+1)
			if err != nil {
				return nil, err
			}
			out.items = append(out.items, e)
		}
		return out, nil
	case *types.Array:
		a := v.(Array)
		out := &jval{kind: jArr}
		for _, x := range a {
			e, err := c.encode(x, u.Elem(), depth+1)
			if err != nil {
				return nil, err
			}
			out.items = append(out.items, e)
		}
		return out, nil
	case *types.Map:
		m := v.(*Map)
		if m == nil {
			return &jval{kind: jNull}, nil
		}
		out := &jval{kind: jObj}
		type kv struct {
			k string
			v Value
		}
		var kvs []kv
		for _, e := range m.Entries {
			ks, ok := e.K.(string)
			if !ok {
				if ki, isInt := e.K.(int64); isInt {
					ks = fmt.Sprint(ki)
				} else {
					panic(pathAbort{"unsupported: json encoding of a map with symbolic keys"})
				}
			}
			kvs = append(kvs, kv{ks, e.V})
		}
		sort.Slice(kvs, func(i, j int) bool { return kvs[i].k < kvs[j].k })
		for _, e := range kvs {
			x, err := c.encode(e.v, u.Elem(), depth+1)
			if err != nil {
				return nil, err
			}
			out.keys = append(out.keys, e.k)
			out.items = append(out.items, x)
		}
		return out, nil
	case *types.Interface:
		iv := v.(Iface)
		if iv.T == nil {
			return &jval{kind: jNull}, nil
		}
		return c.encode(iv.V, iv.T, depth+1)
	}
	panic(pathAbort{fmt.Sprintf("unsupported: json encoding of %s", t)})
}

func (c *jsonCtx) encodeFields(out *jval, sv Struct, st *types.Struct, depth int) *Iface {
	for _, f := range jsonFields(st) {
		fv := sv[f.index]
		if f.embedded {
			inner := fv
			it := f.typ
			if p, ok := fv.(Ptr); ok {
				if p.IsNil() {
					continue
				}
				inner = *p.C
				it = derefType(f.typ)
			}
			if is, ok := inner.(Struct); ok {
				if err := c.encodeFields(out, is, it.Underlying().(*types.Struct), depth+1); err != nil {
					return err
				}
				continue
			}
		}
		if f.omitempty && c.emptyValue(fv, f.typ) {
			continue
		}
		e, err := c.encode(fv, f.typ, depth+1)
		if err != nil {
			panic(jsonEncodeError{err})
		}
		out.keys = append(out.keys, f.name)
		out.items = append(out.items, e)
	}
	return nil
}

type jsonEncodeError struct{ err *Iface }

func (ex *Exec) jsonMarshal(v Value, site string) (res *jval, err *Iface) {
	c := &jsonCtx{ex: ex, site: site}
	defer func() {
		if r := recover(); r != nil {
			if je, ok := r.(jsonEncodeError); ok {
				res, err = nil, je.err
				return
			}
			panic(r)
		}
	}()
	iv, ok := v.(Iface)
	if !ok {
		panic(pathAbort{"unsupported: json.Marshal of a non-interface operand"})
	}
	if iv.T == nil {
		return &jval{kind: jNull}, nil
	}
	return c.encode(iv.V, iv.T, 0)
}

// parseJSONText parses concrete JSON text into a tree.
func parseJSONText(raw []byte) (*jval, error) {
	var x interface{}
	dec := json.NewDecoder(strings.NewReader(string(raw)))
	dec.UseNumber()
	if err := dec.Decode(&x); err != nil {
		return nil, err
	}
	return fromGo(x), nil
}

func fromGo(x interface{}) *jval {
	switch v := x.(type) {
	case nil:
		return &jval{kind: jNull}
	case bool:
		return &jval{kind: jBool, v: v}
	case string:
		return &jval{kind: jStr, v: v}
	case json.Number:
		if i, err := v.Int64(); err == nil {
			return &jval{kind: jNum, v: i}
		}
		f, _ := v.Float64()
		return &jval{kind: jNum, v: f}
	case float64:
		return &jval{kind: jNum, v: v}
	case []interface{}:
		out := &jval{kind: jArr}
		for _, e := range v {
			out.items = append(out.items, fromGo(e))
		}
		return out
	case map[string]interface{}:
		out := &jval{kind: jObj}
		var ks []string
		for k := range v {
			ks = append(ks, k)
		}
		sort.Strings(ks)
		for _, k := range ks {
			out.keys = append(out.keys, k)
			out.items = append(out.items, fromGo(v[k]))
		}
		return out
	}
	return &jval{kind: jNull}
}

// ---------------------------------------------------------------- decoding

func kindName(k int) string {
	return []string{"null", "bool", "number", "string", "array", "object"}[k]
}

func (c *jsonCtx) typeError(j *jval, t types.Type) {
	if c.typeErr != nil {
		return
	}
	ex := c.ex
	e := Iface{T: opaqueType, V: &errAbs{site: c.site, msg: "json: cannot unmarshal " + kindName(j.kind) + " into Go value of type " + t.String(), kind: "jsontype:" + kindName(j.kind)}}
	// a real *json.UnmarshalTypeError when the program's type is available (errors.As needs it)
	if ute := ex.sh.jsonUTE; ute != nil {
		cell := new(Value)
		sv := ex.zero(ute).(Struct)
		st := ute.Underlying().(*types.Struct)
		for i := 0; i < st.NumFields(); i++ {
			if st.Field(i).Name() == "Value" {
				sv[i] = kindName(j.kind)
			}
		}
		*cell = sv
		e = Iface{T: types.NewPointer(ute), V: Ptr{C: cell, O: ex.newObj("UnmarshalTypeError")}}
	}
	c.typeErr = &e
}

func (c *jsonCtx) decode(j *jval, dst *Value, t types.Type, depth int) *Iface {
	ex := c.ex
	if depth > 40 {
		panic(pathAbort{"unwind: json decoding depth"})
	}
	// Unmarshaler on *t
	if _, isPtr := t.Underlying().(*types.Pointer); !isPtr {
		if _, isIface := t.Underlying().(*types.Interface); !isIface {
			if fn := ex.findMethod(types.NewPointer(t), "UnmarshalJSON"); fn != nil && fn.Blocks != nil && allowedPkg(fnPkgPath(fn)) {
				recv := Ptr{C: dst, O: ex.newObj("json-dst")}
				r := ex.callFn(fn, []Value{recv, &jsonBytes{tree: j}}, nil, c.site).(Iface)
				if r.T != nil {
					return &r
				}
				return nil
			}
		}
	}
	if n, ok := t.(*types.Named); ok && n.Obj().Pkg() != nil && n.Obj().Pkg().Path() == "encoding/json" && n.Obj().Name() == "RawMessage" {
		*dst = &jsonBytes{tree: j} // the member's text, undecoded
		return nil
	}
	switch u := t.Underlying().(type) {
	case *types.Pointer:
		if j.kind == jNull {
			*dst = Ptr{}
			return nil
		}
		p, _ := (*dst).(Ptr)
		if p.IsNil() {
			p = ex.alloc(u.Elem(), c.site)
			*dst = p
		}
		return c.decode(j, p.C, u.Elem(), depth+1)
	case *types.Interface:
		if u.NumMethods() != 0 {
			panic(pathAbort{"unsupported: json decoding into a non-empty interface"})
		}
		*dst = c.generic(j)
		return nil
	}
	if j.kind == jNull {
		return nil // null leaves non-pointer values unchanged
	}
	switch u := t.Underlying().(type) {
	case *types.Basic:
		switch {
		case u.Info()&types.IsString != 0:
			if j.kind != jStr {
				c.typeError(j, t)
				return nil
			}
			*dst = j.v
		case u.Info()&types.IsBoolean != 0:
			if j.kind != jBool {
				c.typeError(j, t)
				return nil
			}
			*dst = j.v
		case u.Info()&types.IsInteger != 0:
			if j.kind != jNum {
				c.typeError(j, t)
				return nil
			}
			if _, isF := j.v.(float64); isF {
				c.typeError(j, t)
				return nil
			}
			*dst = j.v
		case u.Info()&types.IsFloat != 0:
			if j.kind != jNum {
				c.typeError(j, t)
				return nil
			}
			switch n := j.v.(type) {
			case int64:
				*dst = float64(n)
			default:
				*dst = n
			}
		default:
			panic(pathAbort{"unsupported: json decoding into " + t.String()})
		}
	case *types.Struct:
		if j.kind != jObj {
			c.typeError(j, t)
			return nil
		}
		sv, ok := (*dst).(Struct)
		if !ok {
			panic(pathAbort{fmt.Sprintf("unsupported: json decoding into abstract value %T", *dst)})
		}
		for i, k := range j.keys {
			fp, ft := c.lookupField(sv, u, k)
			if fp == nil {
				continue
			}
			if err := c.decode(j.items[i], fp, ft, depth+1); err != nil {
				return err
			}
		}
	case *types.Slice:
		if j.kind != jArr {
			c.typeError(j, t)
			return nil
		}
		arr := make([]Value, len(j.items))
		for i := range arr {
			arr[i] = ex.zero(u.Elem())
		}
		s := Slice{Arr: arr, Len: len(arr), Cap: len(arr), O: ex.newObj(c.site)}
		for i, it := range j.items {
			if err := c.decode(it, &s.Arr[i], u.Elem(), depth+1); err != nil {
				return err
			}
		}
		*dst = s
	case *types.Map:
		if j.kind != jObj {
			c.typeError(j, t)
			return nil
		}
		m, _ := (*dst).(*Map)
		if m == nil {
			m = &Map{O: ex.newObj(c.site)}
		}
		for i, k := range j.keys {
			cell := new(Value)
			*cell = ex.zero(u.Elem())
			if err := c.decode(j.items[i], cell, u.Elem(), depth+1); err != nil {
				return err
			}
			found := false
			for x := range m.Entries {
				if ks, ok := m.Entries[x].K.(string); ok && ks == k {
					m.Entries[x].V = *cell
					found = true
				}
			}
			if !found {
				m.Entries = append(m.Entries, mapEntry{K: k, V: *cell})
			}
		}
		*dst = m
	default:
		panic(pathAbort{"unsupported: json decoding into " + t.String()})
	}
	return nil
}

// lookupField finds the destination of member k: exact tag match first, then case-insensitive; embedded structs searched.
func (c *jsonCtx) lookupField(sv Struct, st *types.Struct, k string) (*Value, types.Type) {
	fs := jsonFields(st)
	for pass := 0; pass < 2; pass++ {
		for _, f := range fs {
			if f.embedded {
				continue
			}
			if (pass == 0 && f.name == k) || (pass == 1 && strings.EqualFold(f.name, k)) {
				return &sv[f.index], f.typ
			}
		}
	}
	for _, f := range fs {
		if !f.embedded {
			continue
		}
		inner := &sv[f.index]
		it := f.typ
		if pt, ok := it.Underlying().(*types.Pointer); ok {
			p, _ := (*inner).(Ptr)
			if p.IsNil() {
				p = c.ex.alloc(pt.Elem(), c.site)
				*inner = p
			}
			inner = p.C
			it = pt.Elem()
		}
		if is, ok := (*inner).(Struct); ok {
			if fp, ft := c.lookupField(is, it.Underlying().(*types.Struct), k); fp != nil {
				return fp, ft
			}
		}
	}
	return nil, nil
}

var (
	anyType      = types.NewInterfaceType(nil, nil).Complete()
	mapAnyType   = types.NewMap(types.Typ[types.String], anyType)
	sliceAnyType = types.NewSlice(anyType)
)

// generic decodes into interface{}: map[string]interface{}, []interface{}, string, float64, bool, nil.
func (c *jsonCtx) generic(j *jval) Value {
	ex := c.ex
	switch j.kind {
	case jNull:
		return Iface{}
	case jBool:
		return Iface{T: types.Typ[types.Bool], V: j.v}
	case jStr:
		return Iface{T: types.Typ[types.String], V: j.v}
	case jNum:
		switch n := j.v.(type) {
		case int64:
			return Iface{T: types.Typ[types.Float64], V: float64(n)}
		case float64:
			return Iface{T: types.Typ[types.Float64], V: n}
		}
		panic(pathAbort{"unsupported: symbolic number decoded into interface{}"})
	case jArr:
		arr := make([]Value, len(j.items))
		for i, it := range j.items {
			arr[i] = c.generic(it)
		}
		return Iface{T: sliceAnyType, V: Slice{Arr: arr, Len: len(arr), Cap: len(arr), O: ex.newObj(c.site)}}
	case jObj:
		m := &Map{O: ex.newObj(c.site)}
		for i, k := range j.keys {
			found := false
			for x := range m.Entries {
				if m.Entries[x].K.(string) == k {
					m.Entries[x].V = c.generic(j.items[i])
					found = true
				}
			}
			if !found {
				m.Entries = append(m.Entries, mapEntry{K: k, V: c.generic(j.items[i])})
			}
		}
		return Iface{T: mapAnyType, V: m}
	}
	return Iface{}
}

func (ex *Exec) jsonUnmarshal(data Value, target Value, site string) Iface {
	var tree *jval
	switch b := data.(type) {
	case *jsonBytes:
		tree = b.tree
	case Slice:
		raw := make([]byte, b.Len)
		for i := range raw {
			raw[i] = byte(b.Arr[b.Off+i].(int64))
		}
		tr, err := parseJSONText(raw)
		if err != nil {
			return mkErr(site, "json: syntax error")
		}
		tree = tr
	case *textBytes:
		return mkErr(site, "json: syntax error (not JSON)")
	default:
		panic(pathAbort{fmt.Sprintf("unsupported: json.Unmarshal of %T", data)})
	}
	if tree == nil {
		return mkErr(site, "unexpected end of JSON input")
	}
	iv := target.(Iface)
	p, ok := iv.V.(Ptr)
	if !ok || p.IsNil() || iv.T == nil {
		return mkErr(site, "json: Unmarshal(nil)")
	}
	pt, ok := iv.T.Underlying().(*types.Pointer)
	if !ok {
		return mkErr(site, "json: Unmarshal(non-pointer)")
	}
	c := &jsonCtx{ex: ex, site: site}
	if err := c.decode(tree, p.C, pt.Elem(), 0); err != nil {
		return *err
	}
	if c.typeErr != nil {
		return *c.typeErr
	}
	return Iface{}
}

// renderConcrete renders a fully concrete tree as JSON text (used for string(data) of non-string values).
func renderConcrete(j *jval) (string, bool) {
	switch j.kind {
	case jNull:
		return "null", true
	case jBool:
		b, ok := j.v.(bool)
		return fmt.Sprint(b), ok
	case jNum:
		switch n := j.v.(type) {
		case int64:
			return fmt.Sprint(n), true
		case float64:
			return fmt.Sprint(n), true
		}
		return "", false
	case jStr:
		s, ok := j.v.(string)
		if !ok {
			return "", false
		}
		b, _ := json.Marshal(s)
		return string(b), true
	case jArr:
		parts := []string{}
		for _, it := range j.items {
			p, ok := renderConcrete(it)
			if !ok {
				return "", false
			}
			parts = append(parts, p)
		}
		return "[" + strings.Join(parts, ",") + "]", true
	case jObj:
		parts := []string{}
		for i, it := range j.items {
			p, ok := renderConcrete(it)
			if !ok {
				return "", false
			}
			k, _ := json.Marshal(j.keys[i])
			parts = append(parts, string(k)+":"+p)
		}
		return "{" + strings.Join(parts, ",") + "}", true
	}
	return "", false
}
