package main

import (
	"bufio"
	"fmt"
	"io"
	"os/exec"
	"strings"
	"time"
)

// Solver wraps one persistent SMT solver process (cvc5 or z3) speaking SMT-LIB2 on stdin/stdout.
type Solver struct {
	Kind      string // "cvc5" | "z3"
	timeoutMs int
	cmd       *exec.Cmd
	in        io.WriteCloser
	lines     chan string
	declared  map[*Term]bool
	ufs       map[string]bool
	pushed    int
	dead      bool

	Queries  int
	Time     time.Duration
	Sat      int
	Unsat    int
	Unknown  int
	Restarts int
	Slowest  time.Duration
	SlowQ    string
	Hist     [6]int
	Errors   []string
	logw     io.Writer
}

func NewSolver(kind string, timeoutMs int) *Solver {
	s := &Solver{Kind: kind, timeoutMs: timeoutMs}
	s.start()
	return s
}

func (s *Solver) start() {
	var cmd *exec.Cmd
	if s.Kind == "cvc5" {
		cmd = exec.Command("cvc5", "--incremental", "--strings-exp", "--produce-models", "--lang", "smt2", fmt.Sprintf("--tlimit-per=%d", s.timeoutMs))
	} else {
		cmd = exec.Command("z3", "-in", fmt.Sprintf("-t:%d", s.timeoutMs))
	}
	in, _ := cmd.StdinPipe()
	outp, _ := cmd.StdoutPipe()
	cmd.Stderr = cmd.Stdout
	if err := cmd.Start(); err != nil {
		panic(err)
	}
	s.cmd, s.in = cmd, in
	ch := make(chan string, 64)
	s.lines = ch
	go func() {
		r := bufio.NewReaderSize(outp, 1<<16)
		for {
			line, err := r.ReadString('\n')
			if line != "" {
				ch <- strings.TrimSpace(line)
			}
			if err != nil {
				close(ch)
				return
			}
		}
	}()
	s.declared = map[*Term]bool{}
	s.ufs = map[string]bool{}
	s.pushed = 0
	s.dead = false
	s.preamble()
}

func (s *Solver) preamble() {
	s.send("(set-option :global-declarations true)")
	if s.Kind == "cvc5" {
		s.send("(set-logic QF_UFSLIA)")
	} else {
		s.send("(set-option :produce-models true)")
	}
}

func (s *Solver) restart() {
	s.Restarts++
	if s.cmd != nil && s.cmd.Process != nil {
		s.cmd.Process.Kill()
		go s.cmd.Wait()
	}
	s.start()
}

func (s *Solver) send(line string) {
	if s.logw != nil {
		fmt.Fprintln(s.logw, line)
	}
	if _, err := io.WriteString(s.in, line+"\n"); err != nil {
		s.dead = true
	}
}

// Reset clears all assertions and declarations.
func (s *Solver) Reset() {
	if s.dead {
		s.restart()
		return
	}
	s.send("(reset)")
	s.declared = map[*Term]bool{}
	s.ufs = map[string]bool{}
	s.pushed = 0
	s.preamble()
}

func sortName(so Sort) string {
	switch so {
	case SStr:
		return "String"
	case SInt:
		return "Int"
	}
	return "Bool"
}

func (s *Solver) declare(t *Term) {
	for _, v := range t.vs {
		if s.declared[v] {
			continue
		}
		s.declared[v] = true
		s.send(fmt.Sprintf("(declare-const %s %s)", v.Name, sortName(v.Sort)))
	}
	if t.uf {
		m := map[string]*Term{}
		t.ufs(m)
		for n, u := range m {
			if s.ufs[n] {
				continue
			}
			s.ufs[n] = true
			var as []string
			for _, a := range u.Args {
				as = append(as, sortName(a.Sort))
			}
			s.send(fmt.Sprintf("(declare-fun %s (%s) %s)", n, strings.Join(as, " "), sortName(u.Sort)))
		}
	}
}

// Assert adds t permanently (until the next Reset) at the current push level.
func (s *Solver) Assert(t *Term) {
	s.declare(t)
	s.send("(assert " + t.smt() + ")")
}

func (s *Solver) Push() {
	s.send("(push 1)")
	s.pushed++
}

func (s *Solver) Pop() {
	if s.pushed > 0 {
		s.send("(pop 1)")
		s.pushed--
	}
}

// CheckSat runs (check-sat) on the current stack and returns "sat", "unsat" or "unknown".
func (s *Solver) CheckSat(desc *Term) string {
	t0 := time.Now()
	s.Queries++
	s.send("(check-sat)")
	res := s.readLine(time.Duration(s.timeoutMs)*time.Millisecond*3 + 5*time.Second)
	d := time.Since(t0)
	s.Time += d
	if d > s.Slowest {
		s.Slowest = d
		if desc != nil {
			q := desc.smt()
			if len(q) > 400 {
				q = q[:400]
			}
			s.SlowQ = q
		}
	}
	s.Hist[histBucket(d)]++
	switch res {
	case "sat":
		s.Sat++
	case "unsat":
		s.Unsat++
	default:
		s.Unknown++
		if strings.Contains(res, "error") && len(s.Errors) < 20 {
			q := ""
			if desc != nil {
				q = desc.smt()
				if len(q) > 300 {
					q = q[:300]
				}
			}
			s.Errors = append(s.Errors, s.Kind+": "+res+" on "+q)
		}
		if res == "<hard-timeout>" || res == "<died>" {
			s.dead = true
		}
		res = "unknown"
	}
	return res
}

// Check pushes, asserts extra, and checks. The caller must Pop() afterwards (after an optional Model()).
func (s *Solver) Check(extra *Term) string {
	s.Push()
	if extra != nil {
		s.Assert(extra)
	}
	return s.CheckSat(extra)
}

func (s *Solver) readLine(hard time.Duration) string {
	select {
	case line, ok := <-s.lines:
		if !ok {
			return "<died>"
		}
		return line
	case <-time.After(hard):
		return "<hard-timeout>"
	}
}

// Model returns values of the given variables (call right after a sat check, before Pop).
func (s *Solver) Model(vars []*Term) map[string]string {
	res := map[string]string{}
	for _, v := range vars {
		if !s.declared[v] {
			continue
		}
		s.send(fmt.Sprintf("(get-value (%s))", v.Name))
		line := s.readLine(20 * time.Second)
		// multi-line values are not expected for scalars/strings
		line = strings.TrimPrefix(line, "((")
		line = strings.TrimSuffix(line, "))")
		line = strings.TrimPrefix(line, v.Name)
		res[v.Name] = strings.TrimSpace(line)
	}
	return res
}

func (s *Solver) Close() {
	s.send("(exit)")
	s.in.Close()
	done := make(chan struct{})
	go func() { s.cmd.Wait(); close(done) }()
	select {
	case <-done:
	case <-time.After(2 * time.Second):
		s.cmd.Process.Kill()
	}
}

func histBucket(d time.Duration) int {
	ms := d.Milliseconds()
	switch {
	case ms < 5:
		return 0
	case ms < 20:
		return 1
	case ms < 100:
		return 2
	case ms < 500:
		return 3
	case ms < 2000:
		return 4
	}
	return 5
}

// ModelAll reads the values of vars with one get-value command (call right after a sat check, before Pop).
func (s *Solver) ModelAll(vars []*Term) map[string]string {
	var names []string
	for _, v := range vars {
		if s.declared[v] {
			names = append(names, v.Name)
		}
	}
	res := map[string]string{}
	if len(names) > 0 {
		s.send("(get-value (" + strings.Join(names, " ") + "))")
		var buf strings.Builder
		depth, started := 0, false
		for {
			line := s.readLine(20 * time.Second)
			if line == "<died>" || line == "<hard-timeout>" {
				s.dead = true
				return nil
			}
			buf.WriteString(line)
			buf.WriteByte(' ')
			inStr := false
			for i := 0; i < len(line); i++ {
				ch := line[i]
				if ch == '"' {
					inStr = !inStr
				}
				if inStr {
					continue
				}
				if ch == '(' {
					depth++
					started = true
				} else if ch == ')' {
					depth--
				}
			}
			if started && depth <= 0 {
				break
			}
			if !started {
				return nil // an error line
			}
		}
		parsePairs(buf.String(), res)
	}
	// undeclared variables are unconstrained
	for _, v := range vars {
		if _, ok := res[v.Name]; !ok {
			switch v.Sort {
			case SStr:
				res[v.Name] = "\"\""
			case SInt:
				res[v.Name] = "0"
			default:
				res[v.Name] = "false"
			}
		}
	}
	return res
}

// parsePairs parses "((a "x") (b 3) (c (- 2)))" into name -> value text.
func parsePairs(s string, into map[string]string) {
	i := 0
	n := len(s)
	skip := func() {
		for i < n && (s[i] == ' ' || s[i] == '\n' || s[i] == '\t') {
			i++
		}
	}
	skip()
	if i >= n || s[i] != '(' {
		return
	}
	i++
	for {
		skip()
		if i >= n || s[i] != '(' {
			return
		}
		i++
		skip()
		st := i
		for i < n && s[i] != ' ' {
			i++
		}
		name := s[st:i]
		skip()
		st = i
		depth := 0
		inStr := false
		for i < n {
			ch := s[i]
			if ch == '"' {
				inStr = !inStr
			} else if !inStr {
				if ch == '(' {
					depth++
				} else if ch == ')' {
					if depth == 0 {
						break
					}
					depth--
				}
			}
			i++
		}
		into[name] = strings.TrimSpace(s[st:i])
		i++ // closing paren of the pair
	}
}
