package main

import (
	"bufio"
	"fmt"
	"io"
	"os/exec"
	"strings"
	"time"
)

// Solver wraps one persistent `z3 -in` process.
type Solver struct {
	cmd        *exec.Cmd
	in         io.WriteCloser
	out        *bufio.Reader
	declared   map[string]bool
	Queries    int
	Time       time.Duration
	Sat        int
	Unsat      int
	Unknown    int
	log        io.Writer
	lastPushed bool
	Slowest    time.Duration
	SlowQ      string
	Hist       [6]int
}

func NewSolver(timeoutMs int) *Solver {
	var cmd *exec.Cmd
	if useCVC5 {
		cmd = exec.Command("cvc5", "--incremental", "--strings-exp", "--produce-models", "--lang", "smt2", fmt.Sprintf("--tlimit-per=%d", timeoutMs))
	} else {
		cmd = exec.Command("z3", "-in", fmt.Sprintf("-t:%d", timeoutMs))
	}
	in, _ := cmd.StdinPipe()
	outp, _ := cmd.StdoutPipe()
	cmd.Stderr = cmd.Stdout
	if err := cmd.Start(); err != nil {
		panic(err)
	}
	return &Solver{cmd: cmd, in: in, out: bufio.NewReader(outp), declared: map[string]bool{}}
}

func (s *Solver) send(line string) {
	if s.log != nil {
		fmt.Fprintln(s.log, line)
	}
	io.WriteString(s.in, line+"\n")
}

func (s *Solver) Reset() {
	s.send("(reset)")
	if useCVC5 {
		s.send("(set-logic QF_SLIA)")
	} else {
		s.send("(set-option :produce-models true)")
	}
	s.declared = map[string]bool{}
}

func (s *Solver) declare(t *Term) {
	vs := map[string]*Term{}
	t.vars(vs)
	for _, n := range sortedVarNames(vs) {
		if s.declared[n] {
			continue
		}
		s.declared[n] = true
		v := vs[n]
		switch v.Sort {
		case SStr:
			s.send(fmt.Sprintf("(declare-const %s String)", n))
			if asciiConstraint {
				s.send(fmt.Sprintf("(assert (str.in_re %s (re.* (re.range \" \" \"~\"))))", n))
			}
		case SInt:
			s.send(fmt.Sprintf("(declare-const %s Int)", n))
		case SBool:
			s.send(fmt.Sprintf("(declare-const %s Bool)", n))
		}
	}
}

func (s *Solver) Assert(t *Term) {
	s.declare(t)
	s.send("(assert " + t.smt() + ")")
}

// Check returns "sat", "unsat" or "unknown" for the current assertions plus extra.
func (s *Solver) Check(extra *Term) string {
	t0 := time.Now()
	s.Queries++
	if extra != nil {
		s.declare(extra)
		s.send("(push)")
		s.send("(assert " + extra.smt() + ")")
	}
	s.send("(check-sat)")
	res := s.readLine()
	if extra != nil {
		s.lastPushed = true
	}
	d := time.Since(t0)
	s.Time += d
	if d > s.Slowest {
		s.Slowest = d
		if extra != nil {
			s.SlowQ = extra.smt()
		}
	}
	s.Hist[histBucket(d)]++
	switch res {
	case "sat":
		s.Sat++
	case "unsat":
		s.Unsat++
	default:
		s.Unknown++
		if strings.HasPrefix(res, "(error") {
			panic("solver error: " + res)
		}
		res = "unknown"
	}
	return res
}

// Pop must be called after a Check(extra != nil), after an optional Model().
func (s *Solver) Pop() {
	if s.lastPushed {
		s.send("(pop)")
		s.lastPushed = false
	}
}

func (s *Solver) readLine() string {
	line, err := s.out.ReadString('\n')
	if err != nil {
		panic("solver died: " + err.Error())
	}
	return strings.TrimSpace(line)
}

// Model returns values of the given variables (call right after a sat Check, before Pop).
func (s *Solver) Model(vars []string) map[string]string {
	res := map[string]string{}
	for _, v := range vars {
		if !s.declared[v] {
			continue
		}
		s.send(fmt.Sprintf("(get-value (%s))", v))
		line := s.readLine()
		// ((v "abc")) or ((v 12)) or ((v (- 3)))
		line = strings.TrimPrefix(line, "((")
		line = strings.TrimSuffix(line, "))")
		line = strings.TrimPrefix(line, v)
		res[v] = strings.TrimSpace(line)
	}
	return res
}

func (s *Solver) Close() {
	s.send("(exit)")
	s.in.Close()
	s.cmd.Wait()
}

func histBucket(d time.Duration) int {
	ms := d.Milliseconds()
	switch {
	case ms < 5:
		return 0
	case ms < 20:
		return 1
	case ms < 100:
		return 2
	case ms < 500:
		return 3
	case ms < 2000:
		return 4
	}
	return 5
}

var asciiConstraint = false

var useCVC5 = false
