package main

import (
	"crypto/sha256"
	"fmt"
	"go/types"
	"reflect"
	"sort"
	"strings"

	"golang.org/x/tools/go/ssa"
)

const protoPkg = "protobom.protobom."

type protoMsg struct {
	ptr   Ptr
	named *types.Named
}
type protoFD struct{ full string }
type protoVal struct {
	v Value
	t types.Type
}
type protoList struct {
	s  Slice
	et types.Type
}
type protoMap struct {
	m      *Map
	kt, vt types.Type
}

func protoName(tag string) string {
	pb := reflect.StructTag(tag).Get("protobuf")
	for _, p := range strings.Split(pb, ",") {
		if strings.HasPrefix(p, "name=") {
			return strings.TrimPrefix(p, "name=")
		}
	}
	return ""
}

func (m *protoMsg) invoke(ex *Exec, method string, args []Value, site string) Value {
	if method != "Range" {
		panic(pathAbort{"unsupported: protoreflect.Message." + method})
	}
	st := m.named.Underlying().(*types.Struct)
	vals := (*m.ptr.C).(Struct)
	for i := 0; i < st.NumFields(); i++ {
		pn := protoName(st.Tag(i))
		if pn == "" {
			continue
		}
		v := vals[i]
		ft := st.Field(i).Type()
		populated := false
		switch x := v.(type) {
		case string:
			populated = x != ""
		case *Term:
			switch x.Sort {
			case SStr:
				populated = ex.decideBool(mkNot(mkEq(x, mkStr(""))))
			case SInt:
				populated = ex.decideBool(mkNot(mkEq(x, mkInt(0))))
			case SBool:
				populated = ex.decideBool(x)
			}
		case int64:
			populated = x != 0
		case bool:
			populated = x
		case Slice:
			populated = x.Len > 0
		case *Map:
			populated = x != nil && len(x.Entries) > 0
		case Ptr:
			populated = !x.IsNil()
		}
		if !populated {
			continue
		}
		fd := Iface{T: absType, V: &protoFD{full: protoPkg + m.named.Obj().Name() + "." + pn}}
		r := ex.callValue(args[0], []Value{fd, &protoVal{v: v, t: ft}}, site)
		if b, ok := r.(bool); ok && !b {
			break
		}
	}
	return nil
}

func (f *protoFD) invoke(ex *Exec, method string, args []Value, site string) Value {
	if method == "FullName" {
		return f.full
	}
	panic(pathAbort{"unsupported: FieldDescriptor." + method})
}

func (l *protoList) invoke(ex *Exec, method string, args []Value, site string) Value {
	switch method {
	case "Len":
		return int64(l.s.Len)
	case "Get":
		i := int(args[0].(int64))
		return &protoVal{v: l.s.Arr[l.s.Off+i], t: l.et}
	}
	panic(pathAbort{"unsupported: List." + method})
}

func (pm *protoMap) invoke(ex *Exec, method string, args []Value, site string) Value {
	if method != "Range" {
		panic(pathAbort{"unsupported: Map." + method})
	}
	if pm.m == nil {
		return nil
	}
	for _, e := range pm.m.Entries {
		r := ex.callValue(args[0], []Value{&protoVal{v: e.K, t: pm.kt}, &protoVal{v: e.V, t: pm.vt}}, site)
		if b, ok := r.(bool); ok && !b {
			break
		}
	}
	return nil
}

func protoValString(ex *Exec, pv *protoVal) Value {
	// enum-typed values print their name (protoreflect.Value.String of an EnumNumber prints the number;
	// flatString only calls String() on scalar fields, where the Go value of an enum field is its number)
	switch x := pv.v.(type) {
	case string:
		return x
	case int64:
		return fmt.Sprint(x)
	case bool:
		return fmt.Sprint(x)
	case *Term:
		switch x.Sort {
		case SStr:
			return x
		case SInt:
			return lower(mkFromInt(x))
		case SBool:
			return lower(mkIte(x, mkStr("true"), mkStr("false")))
		}
	}
	panic(pathAbort{fmt.Sprintf("unsupported: protoreflect.Value.String of %T", pv.v)})
}

// BytesView is []byte(s) of a symbolic string, kept as the same term.
type BytesView struct{ t *Term }

// DigestVal is sha256.Sum256 of a string term: the uninterpreted, injective function H.
type DigestVal struct{ arg *Term }

func (ex *Exec) digestTerm(d DigestVal) *Term {
	if ex.concreteMode() && d.arg.Op == "cs" {
		return mkStr(fmt.Sprintf("%x", sha256.Sum256([]byte(d.arg.S))))
	}
	h := mkUF("H", SStr, d.arg)
	for _, prev := range ex.happs {
		if prev == h {
			return h
		}
	}
	for _, prev := range ex.happs {
		// injectivity instance (SHA-256 collision freedom is assumed)
		ex.assume(mkImplies(mkEq(h, prev), mkEq(d.arg, prev.Args[0])))
	}
	ex.happs = append(ex.happs, h)
	// (the rendering is 64 hexadecimal digits: see slashFree, which is where the model relies on it)
	return h
}

func (ex *Exec) enumString(enum string, v Value) Value {
	tab := ex.sh.enumTab[enum]
	switch x := v.(type) {
	case int64:
		if s, ok := tab[x]; ok {
			return s
		}
		return fmt.Sprint(x)
	case *Term:
		// ite chain over the name table, decimal otherwise
		var keys []int64
		for k := range tab {
			keys = append(keys, k)
		}
		sort.Slice(keys, func(i, j int) bool { return keys[i] < keys[j] })
		res := mkFromInt(x)
		for i := len(keys) - 1; i >= 0; i-- {
			res = mkIte(mkEq(x, mkInt(keys[i])), mkStr(tab[keys[i]]), res)
		}
		return lower(res)
	}
	panic(pathAbort{fmt.Sprintf("unsupported: enum String of %T", v)})
}

// fmtArg renders one operand of a Sprintf-style verb as a string term.
func (ex *Exec) fmtArg(verb byte, a Value, site string) *Term {
	if verb == 'T' {
		ia, ok := a.(Iface)
		if !ok || ia.T == nil {
			return mkStr("<nil>")
		}
		return mkStr(types.TypeString(ia.T, func(p *types.Package) string { return p.Name() }))
	}
	if ia, ok := a.(Iface); ok {
		if ia.T == nil {
			return mkStr("<nil>")
		}
		// enum types print through their String method for %s / %v
		if n, ok := ia.T.(*types.Named); ok && (verb == 's' || verb == 'v') {
			if _, isEnum := ex.sh.enumTab[n.Obj().Name()]; isEnum && n.Obj().Pkg() != nil && strings.HasSuffix(n.Obj().Pkg().Path(), "pkg/sbom") {
				return strTerm(ex.enumString(n.Obj().Name(), ia.V))
			}
		}
		if e, ok := ia.V.(*errAbs); ok {
			if e.msg == nil {
				return mkStr("error")
			}
			if _, isS := e.msg.(string); isS {
				return mkStr("error")
			}
			return mkStr("error")
		}
		a = ia.V
	}
	switch x := a.(type) {
	case string:
		if verb == 'q' {
			return mkStr(fmt.Sprintf("%q", x))
		}
		return mkStr(x)
	case int64:
		if verb == 'x' {
			return mkStr(fmt.Sprintf("%x", x))
		}
		return mkStr(fmt.Sprint(x))
	case bool:
		return mkStr(fmt.Sprint(x))
	case float64:
		return mkStr(fmt.Sprint(x))
	case DigestVal:
		return ex.digestTerm(x)
	case *Term:
		switch x.Sort {
		case SStr:
			if verb == 'q' {
				return mkConcat(mkStr("\""), x, mkStr("\""))
			}
			return x
		case SInt:
			return mkFromInt(x)
		case SBool:
			return mkIte(x, mkStr("true"), mkStr("false"))
		}
	case *protoFD:
		return mkStr(x.full)
	case Ptr:
		if x.IsNil() {
			return mkStr("<nil>")
		}
		return mkStr("0xptr")
	}
	panic(pathAbort{fmt.Sprintf("unsupported: Sprintf arg %T (verb %c) at %s", a, verb, site)})
}

func (ex *Exec) sprintf(format string, va []Value, site string) Value {
	var parts []*Term
	ai := 0
	for i := 0; i < len(format); i++ {
		c := format[i]
		if c != '%' {
			parts = append(parts, mkStr(string(c)))
			continue
		}
		i++
		// flags / width are only supported on concrete integers
		spec := "%"
		for i < len(format) && strings.IndexByte("0123456789+-# .", format[i]) >= 0 {
			spec += string(format[i])
			i++
		}
		if i >= len(format) {
			break
		}
		verb := format[i]
		if verb == '%' {
			parts = append(parts, mkStr("%"))
			continue
		}
		if ai >= len(va) {
			parts = append(parts, mkStr("%!"+string(verb)+"(MISSING)"))
			continue
		}
		a := va[ai]
		ai++
		if spec != "%" {
			if ia, ok := a.(Iface); ok {
				if n, ok := ia.V.(int64); ok {
					parts = append(parts, mkStr(fmt.Sprintf(spec+string(verb), n)))
					continue
				}
			}
			panic(pathAbort{"unsupported: Sprintf flags " + spec + string(verb)})
		}
		switch verb {
		case 's', 'v', 'd', 'q', 'x', 't', 'T':
			parts = append(parts, ex.fmtArg(verb, a, site))
		default:
			panic(pathAbort{"unsupported: Sprintf verb " + string(verb)})
		}
	}
	return lower(mkConcat(parts...))
}

func init() {
	pr := "(google.golang.org/protobuf/reflect/protoreflect."
	intrinsics[pr+"Value).String"] = func(ex *Exec, fn *ssa.Function, args []Value, site string) Value {
		return protoValString(ex, args[0].(*protoVal))
	}
	intrinsics[pr+"MapKey).String"] = func(ex *Exec, fn *ssa.Function, args []Value, site string) Value {
		return protoValString(ex, args[0].(*protoVal))
	}
	intrinsics[pr+"Value).List"] = func(ex *Exec, fn *ssa.Function, args []Value, site string) Value {
		pv := args[0].(*protoVal)
		return Iface{T: absType, V: &protoList{s: pv.v.(Slice), et: pv.t.Underlying().(*types.Slice).Elem()}}
	}
	intrinsics[pr+"Value).Map"] = func(ex *Exec, fn *ssa.Function, args []Value, site string) Value {
		pv := args[0].(*protoVal)
		mt := pv.t.Underlying().(*types.Map)
		return Iface{T: absType, V: &protoMap{m: pv.v.(*Map), kt: mt.Key(), vt: mt.Elem()}}
	}
	intrinsics["fmt.Sprintf"] = func(ex *Exec, fn *ssa.Function, args []Value, site string) Value {
		format, ok := args[0].(string)
		if !ok {
			panic(pathAbort{"unsupported: symbolic Sprintf format"})
		}
		return ex.sprintf(format, sliceVals(args[1]), site)
	}
	intrinsics["fmt.Sprint"] = func(ex *Exec, fn *ssa.Function, args []Value, site string) Value {
		var parts []*Term
		for _, a := range sliceVals(args[0]) {
			parts = append(parts, ex.fmtArg('v', a, site))
		}
		return lower(mkConcat(parts...))
	}
	intrinsics["crypto/sha256.Sum256"] = func(ex *Exec, fn *ssa.Function, args []Value, site string) Value {
		switch x := args[0].(type) {
		case BytesView:
			return DigestVal{arg: x.t}
		case Slice:
			b := make([]byte, x.Len)
			for i := range b {
				b[i] = byte(x.Arr[x.Off+i].(int64))
			}
			return DigestVal{arg: mkStr(string(b))}
		}
		panic(pathAbort{"unsupported: sha256 operand"})
	}
}
