package main

import (
	"fmt"
	"go/types"
	"reflect"
	"strings"

	"golang.org/x/tools/go/ssa"
)

const protoPkg = "protobom.protobom."

var absType types.Type = types.NewNamed(types.NewTypeName(0, nil, "abstractProto", nil), types.NewStruct(nil, nil), nil)

type absInvoker interface {
	invoke(ex *Exec, method string, args []Value, site string) Value
}

type absCall struct {
	recv   absInvoker
	method string
}

type protoMsg struct {
	ptr   Ptr
	named *types.Named
}
type protoFD struct{ full string }
type protoVal struct {
	v Value
	t types.Type
}
type protoList struct {
	s  Slice
	et types.Type
}
type protoMap struct {
	m      *Map
	kt, vt types.Type
}

func protoName(tag string) string {
	pb := reflect.StructTag(tag).Get("protobuf")
	for _, p := range strings.Split(pb, ",") {
		if strings.HasPrefix(p, "name=") {
			return strings.TrimPrefix(p, "name=")
		}
	}
	return ""
}

func (m *protoMsg) invoke(ex *Exec, method string, args []Value, site string) Value {
	if method != "Range" {
		panic(pathAbort{"unsupported: protoreflect.Message." + method})
	}
	st := m.named.Underlying().(*types.Struct)
	vals := (*m.ptr.C).(Struct)
	for i := 0; i < st.NumFields(); i++ {
		pn := protoName(st.Tag(i))
		if pn == "" {
			continue
		}
		v := vals[i]
		ft := st.Field(i).Type()
		populated := false
		switch x := v.(type) {
		case string:
			populated = x != ""
		case *Term:
			switch x.Sort {
			case SStr:
				populated = ex.decideBool(mkNot(mkEq(x, mkStr(""))))
			case SInt:
				populated = ex.decideBool(mkNot(mkEq(x, mkInt(0))))
			case SBool:
				populated = ex.decideBool(x)
			}
		case int64:
			populated = x != 0
		case bool:
			populated = x
		case Slice:
			populated = x.Len > 0
		case *Map:
			populated = x != nil && len(x.Entries) > 0
		case Ptr:
			populated = !x.IsNil()
		}
		if !populated {
			continue
		}
		fd := Iface{T: absType, V: &protoFD{full: protoPkg + m.named.Obj().Name() + "." + pn}}
		r := ex.callValue(args[0], []Value{fd, &protoVal{v: v, t: ft}}, site)
		if b, ok := r.(bool); ok && !b {
			break
		}
	}
	return nil
}

func (f *protoFD) invoke(ex *Exec, method string, args []Value, site string) Value {
	if method == "FullName" {
		return f.full
	}
	panic(pathAbort{"unsupported: FieldDescriptor." + method})
}

func (l *protoList) invoke(ex *Exec, method string, args []Value, site string) Value {
	switch method {
	case "Len":
		return int64(l.s.Len)
	case "Get":
		i := int(args[0].(int64))
		return &protoVal{v: l.s.Arr[l.s.Off+i], t: l.et}
	}
	panic(pathAbort{"unsupported: List." + method})
}

func (pm *protoMap) invoke(ex *Exec, method string, args []Value, site string) Value {
	if method != "Range" {
		panic(pathAbort{"unsupported: Map." + method})
	}
	if pm.m == nil {
		return nil
	}
	for _, e := range pm.m.Entries {
		r := ex.callValue(args[0], []Value{&protoVal{v: e.K, t: pm.kt}, &protoVal{v: e.V, t: pm.vt}}, site)
		if b, ok := r.(bool); ok && !b {
			break
		}
	}
	return nil
}

func protoValString(pv *protoVal) Value {
	switch x := pv.v.(type) {
	case string:
		return x
	case int64:
		return fmt.Sprint(x)
	case bool:
		return fmt.Sprint(x)
	case *Term:
		switch x.Sort {
		case SStr:
			return x
		case SInt:
			return lower(mkFromInt(x))
		case SBool:
			return lower(mkIte(x, mkStr("true"), mkStr("false")))
		}
	}
	panic(pathAbort{fmt.Sprintf("unsupported: protoreflect.Value.String of %T", pv.v)})
}

func init() {
	pr := "(google.golang.org/protobuf/reflect/protoreflect."
	intrinsics[pr+"Value).String"] = func(ex *Exec, fn *ssa.Function, args []Value, site string) Value {
		return protoValString(args[0].(*protoVal))
	}
	intrinsics[pr+"MapKey).String"] = func(ex *Exec, fn *ssa.Function, args []Value, site string) Value {
		return protoValString(args[0].(*protoVal))
	}
	intrinsics[pr+"Value).List"] = func(ex *Exec, fn *ssa.Function, args []Value, site string) Value {
		pv := args[0].(*protoVal)
		return Iface{T: absType, V: &protoList{s: pv.v.(Slice), et: pv.t.Underlying().(*types.Slice).Elem()}}
	}
	intrinsics[pr+"Value).Map"] = func(ex *Exec, fn *ssa.Function, args []Value, site string) Value {
		pv := args[0].(*protoVal)
		mt := pv.t.Underlying().(*types.Map)
		return Iface{T: absType, V: &protoMap{m: pv.v.(*Map), kt: mt.Key(), vt: mt.Elem()}}
	}
	intrinsics["fmt.Sprintf"] = func(ex *Exec, fn *ssa.Function, args []Value, site string) Value {
		format := args[0].(string)
		va := args[1].(Slice)
		var parts []*Term
		ai := 0
		for i := 0; i < len(format); i++ {
			c := format[i]
			if c != '%' {
				parts = append(parts, mkStr(string(c)))
				continue
			}
			i++
			verb := format[i]
			if verb == '%' {
				parts = append(parts, mkStr("%"))
				continue
			}
			if ai >= va.Len {
				panic(pathAbort{"unsupported: Sprintf missing arg"})
			}
			a := va.Arr[va.Off+ai].(Iface)
			ai++
			switch verb {
			case 's', 'v', 'd':
				switch x := a.V.(type) {
				case string:
					parts = append(parts, mkStr(x))
				case int64:
					parts = append(parts, mkStr(fmt.Sprint(x)))
				case bool:
					parts = append(parts, mkStr(fmt.Sprint(x)))
				case *Term:
					switch x.Sort {
					case SStr:
						parts = append(parts, x)
					case SInt:
						parts = append(parts, mkFromInt(x))
					case SBool:
						parts = append(parts, mkIte(x, mkStr("true"), mkStr("false")))
					}
				default:
					panic(pathAbort{fmt.Sprintf("unsupported: Sprintf arg %T", a.V)})
				}
			default:
				panic(pathAbort{"unsupported: Sprintf verb " + string(verb)})
			}
		}
		return lower(mkConcat(parts...))
	}
	intrinsics["sort.Ints"] = func(ex *Exec, fn *ssa.Function, args []Value, site string) Value {
		s := args[0].(Slice)
		for i := 1; i < s.Len; i++ {
			for j := i; j > 0 && s.Arr[s.Off+j].(int64) < s.Arr[s.Off+j-1].(int64); j-- {
				s.Arr[s.Off+j], s.Arr[s.Off+j-1] = s.Arr[s.Off+j-1], s.Arr[s.Off+j]
			}
		}
		return nil
	}
}
