package main

import (
	"fmt"
	"sort"
	"strings"
)

// Sort of an SMT term.
type Sort int

const (
	SBool Sort = iota
	SInt
	SStr
)

// Term is a hash-consed SMT term.
type Term struct {
	Op   string
	Args []*Term
	Sort Sort
	Name string // for "var"
	S    string // string const
	I    int64  // int const
	B    bool   // bool const
	key  string
}

var termTable = map[string]*Term{}

func intern(t *Term) *Term {
	var sb strings.Builder
	sb.WriteString(t.Op)
	sb.WriteByte('|')
	switch t.Op {
	case "var":
		sb.WriteString(t.Name)
	case "cs":
		sb.WriteString(fmt.Sprintf("%q", t.S))
	case "ci":
		sb.WriteString(fmt.Sprint(t.I))
	case "cb":
		sb.WriteString(fmt.Sprint(t.B))
	}
	for _, a := range t.Args {
		sb.WriteByte('(')
		sb.WriteString(a.key)
		sb.WriteByte(')')
	}
	t.key = sb.String()
	if e, ok := termTable[t.key]; ok {
		return e
	}
	termTable[t.key] = t
	return t
}

func mkVar(name string, s Sort) *Term { return intern(&Term{Op: "var", Name: name, Sort: s}) }
func mkStr(s string) *Term            { return intern(&Term{Op: "cs", S: s, Sort: SStr}) }
func mkInt(i int64) *Term             { return intern(&Term{Op: "ci", I: i, Sort: SInt}) }
func mkBool(b bool) *Term             { return intern(&Term{Op: "cb", B: b, Sort: SBool}) }

var tTrue, tFalse = mkBool(true), mkBool(false)

func (t *Term) isConst() bool { return t.Op == "cs" || t.Op == "ci" || t.Op == "cb" }

func mkNot(a *Term) *Term {
	if a.Op == "cb" {
		return mkBool(!a.B)
	}
	if a.Op == "not" {
		return a.Args[0]
	}
	return intern(&Term{Op: "not", Args: []*Term{a}, Sort: SBool})
}

func mkAnd(as ...*Term) *Term {
	var out []*Term
	seen := map[*Term]bool{}
	for _, a := range as {
		if a.Op == "cb" {
			if !a.B {
				return tFalse
			}
			continue
		}
		if a.Op == "and" {
			for _, x := range a.Args {
				if !seen[x] {
					seen[x] = true
					out = append(out, x)
				}
			}
			continue
		}
		if !seen[a] {
			seen[a] = true
			out = append(out, a)
		}
	}
	for _, a := range out {
		if seen[mkNot(a)] {
			return tFalse
		}
	}
	if len(out) == 0 {
		return tTrue
	}
	if len(out) == 1 {
		return out[0]
	}
	return intern(&Term{Op: "and", Args: out, Sort: SBool})
}

func mkOr(as ...*Term) *Term {
	neg := make([]*Term, len(as))
	for i, a := range as {
		neg[i] = mkNot(a)
	}
	return mkNot(mkAnd(neg...))
}

// flatten a string term into concat atoms
func catAtoms(t *Term) []*Term {
	if t.Op == "str.++" {
		return t.Args
	}
	return []*Term{t}
}

func mkConcat(as ...*Term) *Term {
	var out []*Term
	for _, a := range as {
		for _, x := range catAtoms(a) {
			if x.Op == "cs" && x.S == "" {
				continue
			}
			if x.Op == "cs" && len(out) > 0 && out[len(out)-1].Op == "cs" {
				out[len(out)-1] = mkStr(out[len(out)-1].S + x.S)
				continue
			}
			out = append(out, x)
		}
	}
	if len(out) == 0 {
		return mkStr("")
	}
	if len(out) == 1 {
		return out[0]
	}
	return intern(&Term{Op: "str.++", Args: out, Sort: SStr})
}

func mkEq(a, b *Term) *Term {
	if a == b {
		return tTrue
	}
	if a.isConst() && b.isConst() {
		return mkBool(a.key == b.key)
	}
	if a.Sort == SBool {
		if a.Op == "cb" {
			if a.B {
				return b
			}
			return mkNot(b)
		}
		if b.Op == "cb" {
			if b.B {
				return a
			}
			return mkNot(a)
		}
	}
	if a.Sort == SStr {
		// strip common concrete prefix / detect mismatch
		aa, ba := catAtoms(a), catAtoms(b)
		for len(aa) > 0 && len(ba) > 0 && aa[0] == ba[0] {
			aa, ba = aa[1:], ba[1:]
		}
		for len(aa) > 0 && len(ba) > 0 && aa[len(aa)-1] == ba[len(ba)-1] {
			aa, ba = aa[:len(aa)-1], ba[:len(ba)-1]
		}
		if len(aa) == 0 && len(ba) == 0 {
			return tTrue
		}
		if len(aa) > 0 && len(ba) > 0 && aa[0].Op == "cs" && ba[0].Op == "cs" {
			x, y := aa[0].S, ba[0].S
			n := len(x)
			if len(y) < n {
				n = len(y)
			}
			if x[:n] != y[:n] {
				return tFalse
			}
		}
		a, b = mkConcat(aa...), mkConcat(ba...)
		if a == b {
			return tTrue
		}
		if a.isConst() && b.isConst() {
			return mkBool(a.key == b.key)
		}
	}
	if a.key > b.key {
		a, b = b, a
	}
	return intern(&Term{Op: "=", Args: []*Term{a, b}, Sort: SBool})
}

func mkIte(c, a, b *Term) *Term {
	if c.Op == "cb" {
		if c.B {
			return a
		}
		return b
	}
	if a == b {
		return a
	}
	return intern(&Term{Op: "ite", Args: []*Term{c, a, b}, Sort: a.Sort})
}

func mkStrLt(a, b *Term) *Term {
	if a == b {
		return tFalse
	}
	if a.Op == "cs" && b.Op == "cs" {
		return mkBool(a.S < b.S)
	}
	// decide on distinct concrete prefixes
	fa, fb := catAtoms(a)[0], catAtoms(b)[0]
	if fa.Op == "cs" && fb.Op == "cs" {
		n := len(fa.S)
		if len(fb.S) < n {
			n = len(fb.S)
		}
		for i := 0; i < n; i++ {
			if fa.S[i] != fb.S[i] {
				return mkBool(fa.S[i] < fb.S[i])
			}
		}
	}
	return intern(&Term{Op: "str.<", Args: []*Term{a, b}, Sort: SBool})
}

func mkStrLen(a *Term) *Term {
	if a.Op == "cs" {
		return mkInt(int64(len(a.S)))
	}
	return intern(&Term{Op: "str.len", Args: []*Term{a}, Sort: SInt})
}

func mkIntCmp(op string, a, b *Term) *Term {
	if a.Op == "ci" && b.Op == "ci" {
		switch op {
		case "<":
			return mkBool(a.I < b.I)
		case "<=":
			return mkBool(a.I <= b.I)
		case ">":
			return mkBool(a.I > b.I)
		case ">=":
			return mkBool(a.I >= b.I)
		}
	}
	return intern(&Term{Op: op, Args: []*Term{a, b}, Sort: SBool})
}

func mkArith(op string, a, b *Term) *Term {
	if a.Op == "ci" && b.Op == "ci" {
		switch op {
		case "+":
			return mkInt(a.I + b.I)
		case "-":
			return mkInt(a.I - b.I)
		case "*":
			return mkInt(a.I * b.I)
		}
	}
	return intern(&Term{Op: op, Args: []*Term{a, b}, Sort: SInt})
}

func smtString(s string) string {
	var sb strings.Builder
	sb.WriteByte('"')
	for _, r := range []byte(s) {
		switch {
		case r == '"':
			sb.WriteString(`""`)
		case r < 0x20 || r > 0x7e || r == '\\':
			sb.WriteString(fmt.Sprintf("\\u{%x}", r))
		default:
			sb.WriteByte(r)
		}
	}
	sb.WriteByte('"')
	return sb.String()
}

func (t *Term) smt() string {
	switch t.Op {
	case "var":
		return t.Name
	case "cs":
		return smtString(t.S)
	case "ci":
		if t.I < 0 {
			return fmt.Sprintf("(- %d)", -t.I)
		}
		return fmt.Sprint(t.I)
	case "cb":
		return fmt.Sprint(t.B)
	}
	parts := make([]string, len(t.Args))
	for i, a := range t.Args {
		parts[i] = a.smt()
	}
	return "(" + t.Op + " " + strings.Join(parts, " ") + ")"
}

func (t *Term) vars(into map[string]*Term) {
	if t.Op == "var" {
		into[t.Name] = t
		return
	}
	for _, a := range t.Args {
		a.vars(into)
	}
}

func sortedVarNames(m map[string]*Term) []string {
	var ns []string
	for n := range m {
		ns = append(ns, n)
	}
	sort.Strings(ns)
	return ns
}

func mkFromInt(a *Term) *Term {
	if a.Op == "ci" {
		return mkStr(fmt.Sprint(a.I))
	}
	return intern(&Term{Op: "str.from_int", Args: []*Term{a}, Sort: SStr})
}
