package main

import (
	"go/types"
	"fmt"
	"math/rand"
	"os"
	"sort"
	"strings"
	"sync"
	"time"

	"golang.org/x/tools/go/ssa"
)

type Config struct {
	Prop       string
	Tier       string
	Seed       int64
	Workers    int
	TimeoutMs  int
	ZTimeoutMs int
	CTimeoutMs int
	MaxPaths   int // per harness (safety net)
	MaxSteps   int
	MaxDepth   int
	AssertMode string // now | batch
	CrossCheck string // each | sample | off
	AuditEvery int    // audit every n-th rewriting-decided infeasibility / folded assertion with cvc5 (0 = never)
	NoFast     bool   // disable verified-model feasibility shortcuts
	Concrete   bool // self-test mode: all nondets concrete, no solver
	Verbose    bool
	Only       string // substring filter on harness names
	Deadline   time.Time
	HBudget    time.Duration // per harness: time since its first path started (0 = none)
}

type Harness struct {
	Name string
	Prop string
	Fn   *ssa.Function
	Deep bool     // thorough tier, second pass: the harness's larger bounds (under the per-harness time budget)
	Base *Harness // for a Deep harness: its first pass (quick bounds, exhaustive)
	St   *HarnessStats
}

type HarnessStats struct {
	Paths       int
	Completed   int
	Aborted     map[string]int
	SiteReach   map[string]int
	SiteSym     map[string]int
	Discharged  int
	Single      int
	Decisions   int
	Steps       int64
	Rewrites, Audits, ByModel, Folded int
	AuditFail   []string
	MonitorChecks int
	SilentWrites int
	Transitions int
	SymPaths    int
	Unsupported map[string]int
	Funcs       map[string]int
	Stubs       map[string]int
	Bounds      map[string]int64
	Violations  []Violation
	SampleSMT   string
	SamplePaths []string
	Capped      bool
	AuditUnknown int
	first       time.Time
	HasDeeper   bool // the harness asked for a bound (or a thorough-only variant) that is larger in the thorough tier
	NoDeeper    bool // Deep pass skipped: nothing deeper to explore
	Pending     int
	Wall        time.Duration
	start       time.Time
	active      int
}

type workItem struct {
	h      *Harness
	prefix []int32
	model  assignment
}

type Shared struct {
	nextH   int
	cfg     Config
	prog    *ssa.Program
	hpkg    *ssa.Package
	enumTab map[string]map[int64]string
	known   *KnownFindings
	jsonUTE, jType, streamType types.Type

	mu     sync.Mutex
	cond   *sync.Cond
	work   []workItem
	active int
	hs     []*Harness
	rngs   map[*Exec]*rand.Rand
	solverStats
	errors []string
}

type solverStats struct {
	Queries, Sat, Unsat, Unknown, Restarts int
	ZQueries, ZSat, ZUnsat, ZUnknown      int
	Time                                   time.Duration
	ZTime                                  time.Duration
	Hist                                   [6]int
	SlowQ                                  string
	Slowest                                time.Duration
}

func (sh *Shared) rngFor(ex *Exec) *rand.Rand {
	sh.mu.Lock()
	defer sh.mu.Unlock()
	if r, ok := sh.rngs[ex]; ok {
		return r
	}
	r := rand.New(rand.NewSource(sh.cfg.Seed*7919 + int64(ex.id)))
	sh.rngs[ex] = r
	return r
}

func newStats() *HarnessStats {
	return &HarnessStats{Aborted: map[string]int{}, SiteReach: map[string]int{}, SiteSym: map[string]int{}, Unsupported: map[string]int{}, Funcs: map[string]int{}, Stubs: map[string]int{}, Bounds: map[string]int64{}}
}

// explore runs all harnesses to exhaustion (or cap) with a pool of workers sharing one deque.
func (sh *Shared) explore() {
	sh.cond = sync.NewCond(&sh.mu)
	sh.rngs = map[*Exec]*rand.Rand{}
	// harnesses are explored one after the other (all workers on one harness), so that a harness's time budget is
	// its own and a large harness cannot starve the others
	for _, h := range sh.hs {
		h.St = newStats()
	}
	sh.nextH = 0
	var wg sync.WaitGroup
	n := sh.cfg.Workers
	for i := 0; i < n; i++ {
		wg.Add(1)
		go func(id int) {
			defer wg.Done()
			ex := &Exec{sh: sh, prog: sh.prog, id: id, posCache: map[ssa.Instruction]string{}}
			if !sh.cfg.Concrete {
				ex.cvc = NewSolver("cvc5", sh.cfg.CTimeoutMs)
				ex.z3 = NewSolver("z3", sh.cfg.ZTimeoutMs)
			}
			sh.worker(ex)
			if ex.cvc != nil {
				sh.mu.Lock()
				sh.Queries += ex.cvc.Queries
				sh.Sat += ex.cvc.Sat
				sh.Unsat += ex.cvc.Unsat
				sh.Unknown += ex.cvc.Unknown
				sh.Restarts += ex.cvc.Restarts + ex.z3.Restarts
				sh.Time += ex.cvc.Time
				sh.ZQueries += ex.z3.Queries
				sh.ZSat += ex.z3.Sat
				sh.ZUnsat += ex.z3.Unsat
				sh.ZUnknown += ex.z3.Unknown
				sh.ZTime += ex.z3.Time
				for i := range sh.Hist {
					sh.Hist[i] += ex.cvc.Hist[i] + ex.z3.Hist[i]
				}
				for _, s := range []*Solver{ex.cvc, ex.z3} {
					if s.Slowest > sh.Slowest {
						sh.Slowest, sh.SlowQ = s.Slowest, s.Kind+": "+s.SlowQ
					}
					sh.errors = append(sh.errors, s.Errors...)
				}
				sh.mu.Unlock()
				ex.cvc.Close()
				ex.z3.Close()
			}
		}(i)
	}
	wg.Wait()
}

func (sh *Shared) worker(ex *Exec) {
	for {
		sh.mu.Lock()
		for len(sh.work) == 0 && sh.active > 0 {
			sh.cond.Wait()
		}
		for len(sh.work) == 0 && sh.nextH < len(sh.hs) && sh.hs[sh.nextH].Deep && !sh.hs[sh.nextH].Base.St.HasDeeper {
			// the harness has no larger bound: the first pass was already everything
			sh.hs[sh.nextH].St.NoDeeper = true
			sh.nextH++
		}
		if len(sh.work) == 0 && sh.nextH < len(sh.hs) {
			h := sh.hs[sh.nextH]
			sh.nextH++
			h.St.start = time.Now()
			h.St.Pending = 1
			sh.work = append(sh.work, workItem{h: h})
			sh.cond.Broadcast()
		}
		if len(sh.work) == 0 {
			sh.mu.Unlock()
			sh.cond.Broadcast()
			return
		}
		it := sh.work[len(sh.work)-1]
		sh.work = sh.work[:len(sh.work)-1]
		st := it.h.St
		st.Pending--
		if st.first.IsZero() {
			st.first = time.Now()
		}
		over := st.Paths >= sh.cfg.MaxPaths || (!sh.cfg.Deadline.IsZero() && time.Now().After(sh.cfg.Deadline)) ||
			(sh.cfg.HBudget > 0 && it.h.Deep && time.Since(st.first) > sh.cfg.HBudget)
		if over {
			st.Capped = true
			sh.mu.Unlock()
			continue
		}
		st.Paths++
		st.active++
		sh.active++
		sh.mu.Unlock()

		ex.prefixModel = it.model
		reason := ex.runPath(it.h, it.prefix)

		sh.mu.Lock()
		sh.active--
		st.active--
		for _, p := range ex.newWork {
			sh.work = append(sh.work, workItem{h: it.h, prefix: p.prefix, model: p.model})
		}
		st.Pending += len(ex.newWork)
		sh.merge(st, ex, reason, len(it.prefix))
		if st.Pending == 0 && st.active == 0 {
			st.Wall = time.Since(st.start)
		}
		if sh.cfg.Verbose && st.Paths%2000 == 0 {
			fmt.Fprintf(os.Stderr, "[%s] paths=%d pending=%d\n", it.h.Name, st.Paths, st.Pending)
		}
		sh.mu.Unlock()
		sh.cond.Broadcast()
	}
}

func (sh *Shared) merge(st *HarnessStats, ex *Exec, reason string, prefixLen int) {
	r := &ex.res
	if r.hasDeeper {
		st.HasDeeper = true
	}
	if reason == "" {
		st.Completed++
		if ex.pathSym {
			st.SymPaths++
		}
	} else {
		k := reason
		if i := strings.Index(k, ":"); i > 0 && !strings.HasPrefix(k, "unsupported") && !strings.HasPrefix(k, "unwind") {
			k = k[:i]
		}
		st.Aborted[k]++
	}
	for s, n := range r.siteReach {
		st.SiteReach[s] += n
	}
	for s, n := range r.siteSym {
		st.SiteSym[s] += n
	}
	for s, n := range r.unsupported {
		st.Unsupported[s] += n
	}
	for s, n := range r.funcs {
		st.Funcs[s] += n
	}
	for s, n := range r.stubs {
		st.Stubs[s] += n
	}
	for s, n := range ex.bounds {
		st.Bounds[s] = n
	}
	st.Discharged += r.discharged
	st.Single += r.single
	st.Decisions += r.decisions
	st.Steps += int64(ex.steps)
	st.Rewrites += r.rewrites
	st.Audits += r.audits
	st.AuditUnknown += r.auditUnknown
	st.ByModel += r.byModel
	st.Folded += r.folded
	st.MonitorChecks += r.monitorChecks
	st.SilentWrites += r.silentWrites
	st.AuditFail = append(st.AuditFail, r.auditFail...)
	st.Transitions += len(ex.trace) - prefixLen
	if prefixLen > 0 {
		st.Transitions++
	}
	if len(st.Violations) < 400 {
		st.Violations = append(st.Violations, r.violations...)
	}
	if st.SampleSMT == "" && r.sampleSMT != "" {
		st.SampleSMT = r.sampleSMT
	}
	if len(st.SamplePaths) < 3 && reason == "" && len(ex.nondets) > 0 {
		var parts []string
		for _, n := range ex.nondets {
			if n.T != nil {
				parts = append(parts, n.Name+"="+n.T.Name)
			} else {
				parts = append(parts, fmt.Sprintf("%s=%d", n.Name, n.C))
			}
		}
		st.SamplePaths = append(st.SamplePaths, fmt.Sprintf("decisions=%v inputs=[%s]", ex.trace, strings.Join(parts, " ")))
	}
}

// runPath executes one path of harness h following prefix. Returns "" when the path ran to completion.
func (ex *Exec) runPath(h *Harness, prefix []int32) (reason string) {
	ex.curH = h
	ex.pc = ex.pc[:0]
	ex.known = map[*Term]bool{}
	ex.rep = map[*Term]*Term{}
	ex.substMemo = map[*Term]*Term{}
	ex.plainVars = nil
	ex.dirty = false
	ex.model = nil
	ex.syncedC, ex.syncedZ = false, false
	ex.prefix = prefix
	ex.pos = 0
	ex.trace = ex.trace[:0]
	ex.nondets = nil
	ex.nvars = 0
	ex.nobj = 0
	ex.steps = 0
	ex.depth = 0
	ex.inInit = 0
	ex.epoch = 0
	ex.globals = map[*ssa.Global]Ptr{}
	ex.pkgInit = map[*ssa.Package]bool{}
	ex.regions = map[string]*Term{}
	ex.bounds = map[string]int64{}
	ex.mapOrder = mapInsertion
	ex.happs = nil
	ex.rfcapps = nil
	ex.mon = monitors{}
	ex.newWork = nil
	ex.pathSym = false
	ex.panicsOK = 0
	ex.res = pathResult{siteReach: map[string]int{}, siteSym: map[string]int{}, unsupported: map[string]int{}, funcs: map[string]int{}, stubs: map[string]int{}}
	ex.pending = nil
	ex.snaps = nil
	ex.panics = nil
	ex.syncMaps = nil
	ex.fs = nil
	ex.streams = nil
	ex.uuids = nil
	ex.pools = nil
	ex.heldLocks = nil
	ex.nuuid = 0
	ex.onceDone = nil
	defer func() {
		r := recover()
		if r != nil {
			switch r.(type) {
			case pathAbort, goPanic, exitEvent, crashEvent:
			default:
				panic(r)
			}
		}
		if !ex.concreteMode() {
			ex.flushAsserts()
		}
		if r != nil {
			switch e := r.(type) {
			case pathAbort:
				reason = e.reason
				if strings.HasPrefix(e.reason, "unwind") {
					ex.witness(Violation{Site: h.Prop + ".unwind", Kind: "unwind", Msg: e.reason})
				}
			case goPanic:
				reason = "panic"
				ex.witness(Violation{Site: e.site, Kind: "panic", Msg: e.msg})
			case crashEvent:
				reason = "crash outside CrashDuring"
			case exitEvent:
				reason = "exit"
				ex.witness(Violation{Site: e.site, Kind: "exit", Msg: "process exit (logrus.Fatal / os.Exit)"})
			default:
				panic(r)
			}
		}
	}()
	ex.ensureInit(ex.sh.hpkg)
	ex.callFn(h.Fn, nil, nil, "entry")
	return ""
}

// witness records a violation that needs no assertion query: any model of the path condition.
func (ex *Exec) witness(v Violation) {
	if ex.concreteMode() {
		ex.observe(v.Kind + " " + v.Site)
		return
	}
	ex.res.siteReach[v.Kind+":"+v.Site]++
	verdict, model, by := "sat", map[string]string(nil), "trivial"
	if len(ex.pc) > 0 {
		verdict, model, by = ex.checkProp(tTrue, true)
	}
	if verdict == "unsat" {
		return // infeasible path reached through an unknown feasibility answer
	}
	v.Model = model
	v.Values = ex.replayValues(model)
	v.Msg += " solver=" + by
	ex.addViolation(v)
}

func sortedKeys(m map[string]int) []string {
	var ks []string
	for k := range m {
		ks = append(ks, k)
	}
	sort.Strings(ks)
	return ks
}
