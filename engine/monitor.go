package main

import (
	"fmt"
	"go/types"
)

// monitors are engine-level observers switched on by harness helpers.
type monitors struct {
	lockset     *locksetMon
	freezeLabel string
	frozenObjs  []*Obj
	writeSeen   map[string]bool
	obs         []string
}

// walk visits every object reachable from v (through pointers, slices up to capacity, maps, interfaces).
func walkObjs(v Value, seen map[*Obj]bool, cells map[*Value]bool, f func(o *Obj)) {
	switch x := v.(type) {
	case Ptr:
		if x.IsNil() || cells[x.C] {
			return
		}
		cells[x.C] = true
		if x.O != nil && !seen[x.O] {
			seen[x.O] = true
			f(x.O)
		}
		walkObjs(*x.C, seen, cells, f)
	case Struct:
		for _, e := range x {
			walkObjs(e, seen, cells, f)
		}
	case Array:
		for _, e := range x {
			walkObjs(e, seen, cells, f)
		}
	case Slice:
		if x.Nil || x.Cap == 0 {
			return
		}
		if x.O != nil && !seen[x.O] {
			seen[x.O] = true
			f(x.O)
		}
		for i := 0; i < x.Len; i++ {
			walkObjs(x.Arr[x.Off+i], seen, cells, f)
		}
	case *Map:
		if x == nil {
			return
		}
		if x.O != nil && !seen[x.O] {
			seen[x.O] = true
			f(x.O)
		}
		for _, e := range x.Entries {
			walkObjs(e.K, seen, cells, f)
			walkObjs(e.V, seen, cells, f)
		}
	case Iface:
		walkObjs(x.V, seen, cells, f)
	}
}

func (m *monitors) freeze(ex *Exec, label string, roots []Value) {
	m.freezeLabel = label
	seen := map[*Obj]bool{}
	cells := map[*Value]bool{}
	for _, r := range roots {
		walkObjs(r, seen, cells, func(o *Obj) {
			if o.ID < 0 { // package-level variables are not operands
				return
			}
			o.Frozen = true
			m.frozenObjs = append(m.frozenObjs, o)
		})
	}
}

func (m *monitors) thaw() {
	for _, o := range m.frozenObjs {
		o.Frozen = false
	}
	m.frozenObjs = nil
	m.freezeLabel = ""
}

// differs: the term "old and new value differ" for a store (true when it cannot be expressed).
func (ex *Exec) differs(old, nw Value) (res *Term) {
	defer func() {
		if r := recover(); r != nil {
			res = tTrue
		}
	}()
	switch o := old.(type) {
	case bool, int64, string, *Term:
		switch nw.(type) {
		case bool, int64, string, *Term:
			return mkNot(ex.eqTerm(o, nw, nil))
		}
	case Ptr:
		if n, ok := nw.(Ptr); ok {
			return mkBool(o.C != n.C)
		}
	case Slice:
		if n, ok := nw.(Slice); ok {
			same := o.Nil == n.Nil && o.Len == n.Len && o.Cap == n.Cap && o.Off == n.Off && (o.Cap == 0 || &o.Arr[0] == &n.Arr[0])
			return mkBool(!same)
		}
	case *Map:
		if n, ok := nw.(*Map); ok {
			return mkBool(o != n)
		}
	}
	return tTrue
}

// frozenWrite is called for every store into a frozen object. A store that can change the stored value violates
// "snapshot before = snapshot after" (the witness is a model in which old and new value differ); a store that always
// rewrites the same value is recorded as a silent write (a data race between concurrent callers, invisible to snapshots).
func (m *monitors) frozenWrite(ex *Exec, o *Obj, site string, neq *Term) {
	asite := m.freezeLabel
	key := asite + "@" + site
	ex.res.siteReach[asite+".viol"]++
	if m.writeSeen == nil {
		m.writeSeen = map[string]bool{}
	}
	if m.writeSeen[key] || ex.concreteMode() {
		if ex.concreteMode() && neq == tTrue {
			ex.observe("write " + asite)
		}
		return
	}
	if neq == tFalse {
		ex.res.silentWrites++
		return
	}
	verdict, model, by := ex.checkProp(neq, true)
	if verdict != "sat" {
		ex.res.silentWrites++
		return
	}
	m.writeSeen[key] = true
	ex.addViolation(Violation{Site: asite, Kind: "write", Msg: fmt.Sprintf("store into operand memory (object allocated at %s) at %s; solver=%s", o.Site, site, by),
		Model: model, Values: ex.replayValues(model)})
}

// ---------------------------------------------------------------- snapshots

// snapNode is a deep, sharing-insensitive copy of a value tree with (possibly symbolic) leaves.
type snapNode struct {
	kind string // scalar | nil | ptr | struct | slice | map | iface | opaque
	v    Value
	kids []*snapNode
	keys []Value
	n    int
}

func (ex *Exec) snapshot(v Value, t types.Type, depth int) *snapNode {
	if depth > 12 {
		return &snapNode{kind: "opaque"}
	}
	switch x := v.(type) {
	case bool, int64, float64, string, *Term:
		return &snapNode{kind: "scalar", v: x}
	case TimeVal:
		return &snapNode{kind: "struct", kids: []*snapNode{{kind: "scalar", v: x.Sec}, {kind: "scalar", v: x.Nsec}}}
	case Ptr:
		if x.IsNil() {
			return &snapNode{kind: "nil"}
		}
		var et types.Type
		if pt, ok := t.Underlying().(*types.Pointer); ok {
			et = pt.Elem()
		}
		return &snapNode{kind: "ptr", kids: []*snapNode{ex.snapshot(*x.C, et, depth+1)}}
	case Struct:
		n := &snapNode{kind: "struct"}
		st, _ := t.Underlying().(*types.Struct)
		for i, e := range x {
			if st != nil {
				if !st.Field(i).Exported() {
					continue // protobuf internal state (sizeCache, unknownFields, ...)
				}
				n.kids = append(n.kids, ex.snapshot(e, st.Field(i).Type(), depth+1))
			} else {
				n.kids = append(n.kids, ex.snapshot(e, nil, depth+1))
			}
		}
		return n
	case Array:
		n := &snapNode{kind: "struct"}
		var et types.Type
		if at, ok := t.Underlying().(*types.Array); ok {
			et = at.Elem()
		}
		for _, e := range x {
			n.kids = append(n.kids, ex.snapshot(e, et, depth+1))
		}
		return n
	case Slice:
		if x.Nil {
			return &snapNode{kind: "nil"}
		}
		n := &snapNode{kind: "slice", n: x.Len}
		var et types.Type
		if sl, ok := t.Underlying().(*types.Slice); ok {
			et = sl.Elem()
		}
		for i := 0; i < x.Len; i++ {
			n.kids = append(n.kids, ex.snapshot(x.Arr[x.Off+i], et, depth+1))
		}
		return n
	case *Map:
		if x == nil {
			return &snapNode{kind: "nil"}
		}
		n := &snapNode{kind: "map", n: len(x.Entries)}
		var vt types.Type
		if mt, ok := t.Underlying().(*types.Map); ok {
			vt = mt.Elem()
		}
		for _, e := range x.Entries {
			n.keys = append(n.keys, e.K)
			n.kids = append(n.kids, ex.snapshot(e.V, vt, depth+1))
		}
		return n
	case Iface:
		if x.T == nil {
			return &snapNode{kind: "nil"}
		}
		return &snapNode{kind: "iface", kids: []*snapNode{ex.snapshot(x.V, x.T, depth+1)}}
	}
	return &snapNode{kind: "opaque"}
}

// snapEq builds the term "the two snapshots are equal" (order-sensitive for slices, nil-vs-empty-sensitive;
// maps compared as key->value functions).
func (ex *Exec) snapEq(a, b *snapNode) *Term {
	if a.kind != b.kind {
		return tFalse
	}
	switch a.kind {
	case "nil", "opaque":
		return tTrue
	case "scalar":
		return ex.eqTerm(a.v, b.v, nil)
	case "slice":
		if a.n != b.n {
			return tFalse
		}
	case "map":
		if a.n != b.n {
			return tFalse
		}
		// every key of a has an equal key in b with equal value (keys are pairwise distinct on both sides)
		var cs []*Term
		for i, ka := range a.keys {
			var ds []*Term
			for j, kb := range b.keys {
				ds = append(ds, mkAnd(ex.eqTerm(ka, kb, nil), ex.snapEq(a.kids[i], b.kids[j])))
			}
			cs = append(cs, mkOr(ds...))
		}
		return mkAnd(cs...)
	}
	if len(a.kids) != len(b.kids) {
		return tFalse
	}
	var cs []*Term
	for i := range a.kids {
		cs = append(cs, ex.snapEq(a.kids[i], b.kids[i]))
	}
	return mkAnd(cs...)
}

// locksetMon is defined in lockset.go

// ---------------------------------------------------------------- havoc

// havoc assigns a fresh symbolic value to every mutable location reachable from v (exported fields, every slice
// element up to capacity, every map value plus one new key). Followed by "snapshot of the other value unchanged"
// this is literally "mutating any part of one never changes the other"; the solver finds the shared location.
func (ex *Exec) havoc(v Value, t types.Type, seen map[*Value]bool, depth int) {
	if depth > 12 || t == nil {
		return
	}
	switch x := v.(type) {
	case Ptr:
		if x.IsNil() || seen[x.C] {
			return
		}
		seen[x.C] = true
		pt, ok := t.Underlying().(*types.Pointer)
		if !ok {
			return
		}
		ex.havocCell(x.C, pt.Elem(), seen, depth+1)
	case Iface:
		if x.T != nil {
			ex.havoc(x.V, x.T, seen, depth+1)
		}
	}
}

func (ex *Exec) havocCell(c *Value, t types.Type, seen map[*Value]bool, depth int) {
	if depth > 14 {
		return
	}
	switch u := t.Underlying().(type) {
	case *types.Basic:
		switch {
		case u.Info()&types.IsString != 0:
			*c = ex.freshVar("havoc", SStr, "string", false)
		case u.Info()&types.IsInteger != 0:
			*c = ex.freshVar("havoc", SInt, "int", false)
		case u.Info()&types.IsBoolean != 0:
			*c = ex.freshVar("havoc", SBool, "bool", false)
		}
	case *types.Struct:
		st, ok := (*c).(Struct)
		if !ok {
			return
		}
		for i := 0; i < u.NumFields(); i++ {
			if !u.Field(i).Exported() {
				continue
			}
			ex.havocCell(&st[i], u.Field(i).Type(), seen, depth+1)
		}
	case *types.Pointer:
		if p, ok := (*c).(Ptr); ok && !p.IsNil() && !seen[p.C] {
			seen[p.C] = true
			ex.havocCell(p.C, u.Elem(), seen, depth+1)
		}
	case *types.Slice:
		s, ok := (*c).(Slice)
		if !ok || s.Nil {
			return
		}
		for i := 0; i < s.Cap; i++ {
			ex.havocCell(&s.Arr[s.Off+i], u.Elem(), seen, depth+1)
		}
	case *types.Map:
		m, ok := (*c).(*Map)
		if !ok || m == nil {
			return
		}
		for i := range m.Entries {
			ex.havocCell(&m.Entries[i].V, u.Elem(), seen, depth+1)
		}
		var k Value
		if isIntType(u.Key()) {
			k = int64(424242)
		} else if isStringType(u.Key()) {
			k = "havoc-key"
		} else {
			return
		}
		var nv Value = ex.zero(u.Elem())
		m.Entries = append(m.Entries, mapEntry{K: k, V: nv})
		ex.havocCell(&m.Entries[len(m.Entries)-1].V, u.Elem(), seen, depth+1)
	}
}
