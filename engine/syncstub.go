package main

import (
	"go/types"
	"golang.org/x/tools/go/ssa"
)

// sync.Map, sync.Once, sync.Mutex, sync.RWMutex. Maps and once-flags live in side tables keyed by the receiver cell;
// lock operations update the lock-set of the lock-set monitor (C17) and are otherwise no-ops (one goroutine).

func (ex *Exec) syncMap(p Ptr) *Map {
	if ex.syncMaps == nil {
		ex.syncMaps = map[*Value]*Map{}
	}
	m, ok := ex.syncMaps[p.C]
	if !ok {
		m = &Map{O: &Obj{ID: p.O.ID, Site: p.O.Site + " (sync.Map)", Shared: p.O.Shared}}
		ex.syncMaps[p.C] = m
	}
	return m
}

func init() {
	reg := func(name string, f intrinsic) { intrinsics[name] = f }
	atomicEvent := func(ex *Exec, m *Map, write bool, site string) {
		if ex.mon.lockset != nil {
			ex.mon.atomicAccess(ex, m.O, write, site)
		}
	}
	reg("(*sync.Map).Store", func(ex *Exec, fn *ssa.Function, args []Value, site string) Value {
		m := ex.syncMap(args[0].(Ptr))
		atomicEvent(ex, m, true, site)
		if i := ex.mapFind(m, args[1], nil); i >= 0 {
			m.Entries[i].V = args[2]
		} else {
			m.Entries = append(m.Entries, mapEntry{args[1], args[2]})
		}
		return nil
	})
	reg("(*sync.Map).Load", func(ex *Exec, fn *ssa.Function, args []Value, site string) Value {
		m := ex.syncMap(args[0].(Ptr))
		atomicEvent(ex, m, false, site)
		if i := ex.mapFind(m, args[1], nil); i >= 0 {
			return Tuple{m.Entries[i].V, true}
		}
		return Tuple{Iface{}, false}
	})
	reg("(*sync.Map).Delete", func(ex *Exec, fn *ssa.Function, args []Value, site string) Value {
		m := ex.syncMap(args[0].(Ptr))
		atomicEvent(ex, m, true, site)
		if i := ex.mapFind(m, args[1], nil); i >= 0 {
			m.Entries = append(append([]mapEntry{}, m.Entries[:i]...), m.Entries[i+1:]...)
		}
		return nil
	})
	// sync.Pool: Put stores, Get hands back a stored object or (the pool may drop objects at any time) a new one: a
	// free decision, so both behaviours are explored
	reg("(*sync.Pool).Put", func(ex *Exec, fn *ssa.Function, args []Value, site string) Value {
		p := args[0].(Ptr)
		if ex.pools == nil {
			ex.pools = map[*Value][]Value{}
		}
		if iv, ok := args[1].(Iface); ok && iv.T == nil {
			return nil
		}
		ex.pools[p.C] = append(ex.pools[p.C], args[1])
		return nil
	})
	reg("(*sync.Pool).Get", func(ex *Exec, fn *ssa.Function, args []Value, site string) Value {
		p := args[0].(Ptr)
		if items := ex.pools[p.C]; len(items) > 0 && ex.chooseFree(2) == 0 {
			it := items[len(items)-1]
			ex.pools[p.C] = items[:len(items)-1]
			return it
		}
		st := fn.Signature.Recv().Type().(*types.Pointer).Elem().Underlying().(*types.Struct)
		sv, _ := (*p.C).(Struct)
		for i := 0; i < st.NumFields() && i < len(sv); i++ {
			if st.Field(i).Name() == "New" {
				if _, isNil := sv[i].(Iface); !isNil && sv[i] != nil {
					if cl, ok := sv[i].(*Closure); !ok || cl != nil {
						return ex.callValue(sv[i], nil, site)
					}
				}
			}
		}
		return Iface{}
	})
	reg("(*sync.Once).Do", func(ex *Exec, fn *ssa.Function, args []Value, site string) Value {
		p := args[0].(Ptr)
		if ex.onceDone == nil {
			ex.onceDone = map[*Value]bool{}
		}
		if ex.mon.lockset != nil {
			ex.mon.onceEnter(ex, p)
			defer ex.mon.onceLeave(ex, p)
		}
		if ex.onceDone[p.C] {
			return nil
		}
		ex.onceDone[p.C] = true
		ex.callValue(args[1], nil, site)
		return nil
	})
	lock := func(mode int, acquire bool) intrinsic {
		return func(ex *Exec, fn *ssa.Function, args []Value, site string) Value {
			if ex.mon.lockset != nil {
				ex.mon.lockOp(ex, args[0].(Ptr), mode, acquire)
				return nil
			}
			// one goroutine: acquiring (for writing) a mutex it already holds, or any lock it holds for writing, never
			// returns: reported through the termination (unwinding) assertion
			if ex.heldLocks == nil {
				ex.heldLocks = map[*Value]int{}
			}
			c := args[0].(Ptr).C
			switch {
			case acquire && (ex.heldLocks[c] == 2 || (mode == 2 && ex.heldLocks[c] != 0)):
				panic(pathAbort{"unwind: deadlock: a lock is acquired that the same goroutine already holds (" + site + ")"})
			case acquire:
				ex.heldLocks[c] = mode
			default:
				delete(ex.heldLocks, c)
			}
			return nil
		}
	}
	reg("(*sync.Mutex).Lock", lock(2, true))
	reg("(*sync.Mutex).Unlock", lock(2, false))
	reg("(*sync.RWMutex).Lock", lock(2, true))
	reg("(*sync.RWMutex).Unlock", lock(2, false))
	reg("(*sync.RWMutex).RLock", lock(1, true))
	reg("(*sync.RWMutex).RUnlock", lock(1, false))
}
