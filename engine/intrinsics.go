package main

import (
	"fmt"
	"go/types"
	"strconv"
	"strings"

	"golang.org/x/tools/go/ssa"
)

type intrinsic func(ex *Exec, fn *ssa.Function, args []Value, site string) Value

const rt = "github.com/protobom/protobom/internal/verifrt."

var intrinsics map[string]intrinsic

func init() {
	intrinsics = map[string]intrinsic{
		rt + "NondetString": func(ex *Exec, fn *ssa.Function, args []Value, site string) Value {
			name := fmt.Sprintf("s%d_%s", ex.nvars, sanitize(args[0].(string)))
			ex.nvars++
			ex.varNames = append(ex.varNames, name)
			return mkVar(name, SStr)
		},
		rt + "NondetBool": func(ex *Exec, fn *ssa.Function, args []Value, site string) Value {
			name := fmt.Sprintf("b%d_%s", ex.nvars, sanitize(args[0].(string)))
			ex.nvars++
			ex.varNames = append(ex.varNames, name)
			return mkVar(name, SBool)
		},
		rt + "NondetLen": func(ex *Exec, fn *ssa.Function, args []Value, site string) Value {
			return int64(ex.chooseFree(int(args[1].(int64)) + 1))
		},
		rt + "NondetChoice": func(ex *Exec, fn *ssa.Function, args []Value, site string) Value {
			return int64(ex.chooseFree(int(args[1].(int64))))
		},
		rt + "Assume": func(ex *Exec, fn *ssa.Function, args []Value, site string) Value {
			t := ex.simp(boolTerm(args[0]))
			if t == tFalse {
				panic(pathAbort{"assume false"})
			}
			if t != tTrue && !ex.feasible(t) {
				panic(pathAbort{"assume infeasible"})
			}
			ex.assume(t)
			return nil
		},
		rt + "Assert": func(ex *Exec, fn *ssa.Function, args []Value, site string) Value {
			ex.assertTerm(boolTerm(args[0]), args[1].(string))
			return nil
		},
		rt + "And": func(ex *Exec, fn *ssa.Function, args []Value, site string) Value {
			return lower(mkAnd(boolTerm(args[0]), boolTerm(args[1])))
		},
		rt + "Or": func(ex *Exec, fn *ssa.Function, args []Value, site string) Value {
			return lower(mkOr(boolTerm(args[0]), boolTerm(args[1])))
		},
		rt + "Not": func(ex *Exec, fn *ssa.Function, args []Value, site string) Value {
			return lower(mkNot(boolTerm(args[0])))
		},
		rt + "Implies": func(ex *Exec, fn *ssa.Function, args []Value, site string) Value {
			return lower(mkOr(mkNot(boolTerm(args[0])), boolTerm(args[1])))
		},
		rt + "InStr": func(ex *Exec, fn *ssa.Function, args []Value, site string) Value {
			x := strTerm(args[0])
			s := args[1].(Slice)
			var ds []*Term
			for i := 0; i < s.Len; i++ {
				ds = append(ds, mkEq(x, strTerm(s.Arr[s.Off+i])))
			}
			return lower(mkOr(ds...))
		},
		rt + "DistinctStr": func(ex *Exec, fn *ssa.Function, args []Value, site string) Value {
			s := args[0].(Slice)
			var cs []*Term
			for i := 0; i < s.Len; i++ {
				for j := i + 1; j < s.Len; j++ {
					cs = append(cs, mkNot(mkEq(strTerm(s.Arr[s.Off+i]), strTerm(s.Arr[s.Off+j]))))
				}
			}
			return lower(mkAnd(cs...))
		},
		rt + "MapOrderAll": func(ex *Exec, fn *ssa.Function, args []Value, site string) Value {
			ex.MapAllOrder = args[0].(bool)
			return nil
		},
		"slices.Clone": func(ex *Exec, fn *ssa.Function, args []Value, site string) Value {
			s := args[0].(Slice)
			if s.Nil {
				return s
			}
			arr := make([]Value, s.Len)
			for i := range arr {
				arr[i] = copyVal(s.Arr[s.Off+i])
			}
			return Slice{Arr: arr, Len: s.Len, Cap: s.Len, O: ex.newObj(site)}
		},
		"maps.Clone": func(ex *Exec, fn *ssa.Function, args []Value, site string) Value {
			m := args[0].(*Map)
			if m == nil {
				return m
			}
			n := &Map{O: ex.newObj(site)}
			for _, e := range m.Entries {
				n.Entries = append(n.Entries, mapEntry{copyVal(e.K), copyVal(e.V)})
			}
			return n
		},
		"sort.Strings": sortStrings,
		"slices.Sort":  sortStrings,
		"strings.Join": func(ex *Exec, fn *ssa.Function, args []Value, site string) Value {
			s := args[0].(Slice)
			sep := strTerm(args[1])
			var parts []*Term
			for i := 0; i < s.Len; i++ {
				if i > 0 {
					parts = append(parts, sep)
				}
				parts = append(parts, strTerm(s.Arr[s.Off+i]))
			}
			return lower(mkConcat(parts...))
		},
		"strconv.Atoi": func(ex *Exec, fn *ssa.Function, args []Value, site string) Value {
			errT := types.Universe.Lookup("error").Type()
			switch x := args[0].(type) {
			case string:
				n, err := strconv.Atoi(x)
				if err != nil {
					return Tuple{int64(0), Iface{T: errT, V: "atoi"}}
				}
				return Tuple{int64(n), Iface{}}
			case *Term:
				// fork: parse error / fresh integer
				if ex.chooseFree(2) == 0 {
					return Tuple{int64(0), Iface{T: errT, V: "atoi"}}
				}
				name := fmt.Sprintf("i%d_atoi", ex.nvars)
				ex.nvars++
				ex.varNames = append(ex.varNames, name)
				return Tuple{mkVar(name, SInt), Iface{}}
			}
			panic("atoi")
		},
		"context.Background": func(ex *Exec, fn *ssa.Function, args []Value, site string) Value {
			return Iface{T: ctxType, V: &ctxAbs{}}
		},
		"context.WithValue": func(ex *Exec, fn *ssa.Function, args []Value, site string) Value {
			parent := args[0].(Iface).V.(*ctxAbs)
			return Iface{T: ctxType, V: &ctxAbs{parent: parent, key: args[1], val: args[2]}}
		},
		"errors.New": func(ex *Exec, fn *ssa.Function, args []Value, site string) Value {
			return Iface{T: types.Universe.Lookup("error").Type(), V: "error@" + site}
		},
		"github.com/sirupsen/logrus.Info":  noop,
		"github.com/sirupsen/logrus.Warnf": noop,
		"strings.HasPrefix": func(ex *Exec, fn *ssa.Function, args []Value, site string) Value {
			a, aok := args[0].(string)
			b, bok := args[1].(string)
			if aok && bok {
				return strings.HasPrefix(a, b)
			}
			return lower(intern(&Term{Op: "str.prefixof", Args: []*Term{strTerm(args[1]), strTerm(args[0])}, Sort: SBool}))
		},
		"strings.ToLower": func(ex *Exec, fn *ssa.Function, args []Value, site string) Value {
			if a, ok := args[0].(string); ok {
				return strings.ToLower(a)
			}
			panic(pathAbort{"unsupported: symbolic ToLower"})
		},
		"fmt.Errorf": func(ex *Exec, fn *ssa.Function, args []Value, site string) Value {
			return Iface{T: types.Universe.Lookup("error").Type(), V: "error@" + site}
		},
	}
	for _, e := range []string{"Edge_Type", "HashAlgorithm", "Purpose", "Node_NodeType", "SoftwareIdentifierType", "ExternalReference_ExternalReferenceType"} {
		e := e
		intrinsics["(github.com/protobom/protobom/pkg/sbom."+e+").String"] = func(ex *Exec, fn *ssa.Function, args []Value, site string) Value {
			n, ok := args[0].(int64)
			if !ok {
				panic(pathAbort{"unsupported: symbolic enum String()"})
			}
			if s, ok := ex.enumTab[e][n]; ok {
				return s
			}
			return fmt.Sprint(n)
		}
	}
}

func sanitize(s string) string {
	return strings.Map(func(r rune) rune {
		if (r >= 'a' && r <= 'z') || (r >= 'A' && r <= 'Z') || (r >= '0' && r <= '9') || r == '_' {
			return r
		}
		return '_'
	}, s)
}

// insertion sort with solver-decided comparisons; writes only when out of order
func sortStrings(ex *Exec, fn *ssa.Function, args []Value, site string) Value {
	s := args[0].(Slice)
	for i := 1; i < s.Len; i++ {
		for j := i; j > 0; j-- {
			a, b := s.Arr[s.Off+j], s.Arr[s.Off+j-1]
			lt := mkStrLt(strTerm(a), strTerm(b))
			if !ex.decideBool(lt) {
				break
			}
			s.Arr[s.Off+j], s.Arr[s.Off+j-1] = b, a
		}
	}
	return nil
}

func (ex *Exec) assertTerm(t *Term, site string) {
	ex.siteReach[site]++
	t = ex.simp(t)
	if t == tTrue {
		return
	}
	ex.sync()
	r := "sat"
	neg := mkNot(t)
	if neg != tTrue {
		r = ex.solver.Check(neg)
	} else {
		r = ex.solver.Check(nil)
	}
	switch r {
	case "unsat":
		ex.solver.Pop()
		ex.Discharged++
	case "sat":
		m := ex.solver.Model(ex.varNames)
		ex.solver.Pop()
		ex.Violations = append(ex.Violations, Violation{Site: site, Kind: "assert", Model: m, Trace: append([]int{}, ex.trace...)})
	default:
		ex.solver.Pop()
		ex.Violations = append(ex.Violations, Violation{Site: site, Kind: "unknown"})
	}
	// continue under the assumption that the assertion holds
	if ex.feasible(t) {
		ex.assume(t)
	} else {
		panic(pathAbort{"assert always false here"})
	}
}

type ctxAbs struct {
	parent   *ctxAbs
	key, val Value
}

var ctxType types.Type = types.NewNamed(types.NewTypeName(0, nil, "abstractContext", nil), types.NewStruct(nil, nil), nil)

func noop(ex *Exec, fn *ssa.Function, args []Value, site string) Value { return nil }
