package main

import (
	"os"
	"sort"
	"regexp/syntax"
	"regexp"
	"fmt"
	"go/types"
	"math/rand"
	"strconv"
	"strings"

	"golang.org/x/tools/go/ssa"
)

type intrinsic func(ex *Exec, fn *ssa.Function, args []Value, site string) Value

const rt = "github.com/protobom/protobom/internal/verifrt."

var intrinsics = map[string]intrinsic{}

func sliceVals(v Value) []Value {
	s := v.(Slice)
	out := make([]Value, s.Len)
	for i := range out {
		out[i] = s.Arr[s.Off+i]
	}
	return out
}

func boolTerms(v Value) []*Term {
	var out []*Term
	for _, x := range sliceVals(v) {
		out = append(out, boolTerm(x))
	}
	return out
}

func strTerms(v Value) []*Term {
	var out []*Term
	for _, x := range sliceVals(v) {
		out = append(out, strTerm(x))
	}
	return out
}

var concretePool = []string{"", "a", "b", "c", "a", "b", "alpha", "beta", "gamma", "ab", "pkg:npm/x@1", "x y", "A", "a:b", "a+b", "c", "delta"}

func (ex *Exec) concreteMode() bool { return ex.sh.cfg.Concrete }

func (ex *Exec) rng() *rand.Rand { return ex.sh.rngFor(ex) }

func init() {
	reg := func(name string, f intrinsic) { intrinsics[name] = f }

	// ------------------------------------------------------------ symbolic inputs
	reg(rt+"StrFromCodes", func(ex *Exec, fn *ssa.Function, args []Value, site string) Value {
		var parts []*Term
		for _, c := range sliceVals(args[0]) {
			switch x := c.(type) {
			case int64:
				parts = append(parts, mkStr(string(rune(x))))
			default:
				parts = append(parts, mkStrOp("str.from_code", SStr, intTerm(c)))
			}
		}
		return lower(mkConcat(parts...))
	})
	reg(rt+"NondetString", func(ex *Exec, fn *ssa.Function, args []Value, site string) Value {
		name := args[0].(string)
		if ex.concreteMode() {
			s := concretePool[ex.rng().Intn(len(concretePool))]
			ex.nondets = append(ex.nondets, nondetRec{Name: name, Kind: "string", T: mkStr(s)})
			return s
		}
		return ex.freshVar(name, SStr, "string", true)
	})
	nondetInt := func(ex *Exec, fn *ssa.Function, args []Value, site string) Value {
		name := args[0].(string)
		lo, hi := args[1].(int64), args[2].(int64)
		if ex.concreteMode() {
			v := lo + ex.rng().Int63n(hi-lo+1)
			if ex.rng().Intn(2) == 0 && hi-lo > 8 {
				v = lo + ex.rng().Int63n(8)
			}
			ex.nondets = append(ex.nondets, nondetRec{Name: name, Kind: "int", T: mkInt(v)})
			return v
		}
		v := ex.freshVar(name, SInt, "int", true)
		ex.assume(mkIntCmp("<=", mkInt(lo), v))
		ex.assume(mkIntCmp("<=", v, mkInt(hi)))
		return v
	}
	reg(rt+"NondetInt", nondetInt)
	reg(rt+"NondetInt32", nondetInt)
	reg(rt+"NondetInt64", nondetInt)
	reg(rt+"NondetBool", func(ex *Exec, fn *ssa.Function, args []Value, site string) Value {
		name := args[0].(string)
		if ex.concreteMode() {
			b := ex.rng().Intn(2) == 0
			ex.nondets = append(ex.nondets, nondetRec{Name: name, Kind: "bool", T: mkBool(b)})
			return b
		}
		return ex.freshVar(name, SBool, "bool", true)
	})
	reg(rt+"NondetLen", func(ex *Exec, fn *ssa.Function, args []Value, site string) Value {
		n := int(args[1].(int64)) + 1
		var c int
		if ex.concreteMode() {
			c = ex.rng().Intn(n)
		} else {
			c = ex.chooseFree(n)
		}
		ex.recordChoice(args[0].(string), c)
		return int64(c)
	})
	reg(rt+"NondetChoice", func(ex *Exec, fn *ssa.Function, args []Value, site string) Value {
		n := int(args[1].(int64))
		var c int
		if ex.concreteMode() {
			c = ex.rng().Intn(n)
		} else {
			c = ex.chooseFree(n)
		}
		ex.recordChoice(args[0].(string), c)
		return int64(c)
	})
	reg(rt+"Bound", func(ex *Exec, fn *ssa.Function, args []Value, site string) Value {
		v := args[1].(int64)
		if args[2].(int64) != v {
			ex.res.hasDeeper = true
		}
		if ex.curH.Deep {
			v = args[2].(int64)
		}
		// experiments only (not used by the registered commands): VERIF_BOUNDS="NM=3,LH=1"
		for _, kv := range strings.Split(os.Getenv("VERIF_BOUNDS"), ",") {
			if k, val, ok := strings.Cut(kv, "="); ok && k == args[0].(string) {
				if n, err := strconv.ParseInt(val, 10, 64); err == nil {
					v = n
				}
			}
		}
		ex.bounds[args[0].(string)] = v
		return v
	})
	reg(rt+"Thorough", func(ex *Exec, fn *ssa.Function, args []Value, site string) Value {
		ex.res.hasDeeper = true
		return ex.curH.Deep
	})
	reg(rt+"ThoroughOnly", func(ex *Exec, fn *ssa.Function, args []Value, site string) Value {
		ex.res.hasDeeper = true
		if !ex.curH.Deep {
			panic(pathAbort{"skipped: thorough only"})
		}
		return nil
	})

	// ------------------------------------------------------------ constraints and assertions
	reg(rt+"Assume", func(ex *Exec, fn *ssa.Function, args []Value, site string) Value {
		t := ex.simp(boolTerm(args[0]))
		if t == tFalse {
			panic(pathAbort{"assume false"})
		}
		if t != tTrue {
			ok, m := ex.feasibleM(t)
			if !ok {
				panic(pathAbort{"assume infeasible"})
			}
			if m != nil {
				ex.model = m
			}
		}
		ex.assume(boolTerm(args[0]))
		return nil
	})
	reg(rt+"Assert", func(ex *Exec, fn *ssa.Function, args []Value, site string) Value {
		if ex.concreteMode() {
			ex.observe("assert " + args[1].(string) + " " + fmt.Sprint(lower(boolTerm(args[0]))))
			return nil
		}
		ex.assertTerm(boolTerm(args[0]), args[1].(string))
		return nil
	})
	reg(rt+"Region", func(ex *Exec, fn *ssa.Function, args []Value, site string) Value {
		ex.regions[args[0].(string)] = boolTerm(args[1])
		return nil
	})
	reg(rt+"Observe", func(ex *Exec, fn *ssa.Function, args []Value, site string) Value {
		if ex.concreteMode() {
			ex.observe("obs " + args[0].(string) + " " + fmt.Sprintf("%q", lower(strTerm(args[1]))))
		}
		return nil
	})
	reg(rt+"Concrete", func(ex *Exec, fn *ssa.Function, args []Value, site string) Value {
		return ex.concreteMode()
	})

	// ------------------------------------------------------------ branch-free term builders
	reg(rt+"And", func(ex *Exec, fn *ssa.Function, args []Value, site string) Value {
		return lower(mkAnd(boolTerms(args[0])...))
	})
	reg(rt+"Or", func(ex *Exec, fn *ssa.Function, args []Value, site string) Value {
		return lower(mkOr(boolTerms(args[0])...))
	})
	reg(rt+"Not", func(ex *Exec, fn *ssa.Function, args []Value, site string) Value {
		return lower(mkNot(boolTerm(args[0])))
	})
	reg(rt+"Implies", func(ex *Exec, fn *ssa.Function, args []Value, site string) Value {
		return lower(mkImplies(boolTerm(args[0]), boolTerm(args[1])))
	})
	reg(rt+"Iff", func(ex *Exec, fn *ssa.Function, args []Value, site string) Value {
		return lower(mkEq(boolTerm(args[0]), boolTerm(args[1])))
	})
	reg(rt+"IteStr", func(ex *Exec, fn *ssa.Function, args []Value, site string) Value {
		return lower(mkIte(boolTerm(args[0]), strTerm(args[1]), strTerm(args[2])))
	})
	reg(rt+"IteInt", func(ex *Exec, fn *ssa.Function, args []Value, site string) Value {
		return lower(mkIte(boolTerm(args[0]), intTerm(args[1]), intTerm(args[2])))
	})
	reg(rt+"StrIn", func(ex *Exec, fn *ssa.Function, args []Value, site string) Value {
		x := strTerm(args[0])
		var ds []*Term
		for _, y := range strTerms(args[1]) {
			ds = append(ds, mkEq(x, y))
		}
		return lower(mkOr(ds...))
	})
	reg(rt+"StrsDistinct", func(ex *Exec, fn *ssa.Function, args []Value, site string) Value {
		xs := strTerms(args[0])
		var cs []*Term
		for i := range xs {
			for j := i + 1; j < len(xs); j++ {
				cs = append(cs, mkNot(mkEq(xs[i], xs[j])))
			}
		}
		return lower(mkAnd(cs...))
	})
	subset := func(xs, ys []*Term) *Term {
		var cs []*Term
		for _, x := range xs {
			var ds []*Term
			for _, y := range ys {
				ds = append(ds, mkEq(x, y))
			}
			cs = append(cs, mkOr(ds...))
		}
		return mkAnd(cs...)
	}
	reg(rt+"StrSubset", func(ex *Exec, fn *ssa.Function, args []Value, site string) Value {
		return lower(subset(strTerms(args[0]), strTerms(args[1])))
	})
	reg(rt+"StrSetEq", func(ex *Exec, fn *ssa.Function, args []Value, site string) Value {
		xs, ys := strTerms(args[0]), strTerms(args[1])
		return lower(mkAnd(subset(xs, ys), subset(ys, xs)))
	})
	reg(rt+"StrLt", func(ex *Exec, fn *ssa.Function, args []Value, site string) Value {
		return lower(mkStrLt(strTerm(args[0]), strTerm(args[1])))
	})
	reg(rt+"StrContains", func(ex *Exec, fn *ssa.Function, args []Value, site string) Value {
		return lower(mkContains(strTerm(args[0]), strTerm(args[1])))
	})
	reg(rt+"StrEqualFold", func(ex *Exec, fn *ssa.Function, args []Value, site string) Value {
		a, aok := args[0].(string)
		b, bok := args[1].(string)
		if aok && bok {
			return strings.EqualFold(a, b)
		}
		return lower(mkEq(mkStrOp("str.to_lower", SStr, strTerm(args[0])), mkStrOp("str.to_lower", SStr, strTerm(args[1]))))
	})
	reg(rt+"StrOver", func(ex *Exec, fn *ssa.Function, args []Value, site string) Value {
		// every character of s is one of the (concrete, ASCII) alphabet
		alpha, ok := args[1].(string)
		if !ok || alpha == "" {
			panic(pathAbort{"unsupported: symbolic alphabet"})
		}
		if s, ok := args[0].(string); ok {
			for _, c := range s {
				if !strings.ContainsRune(alpha, c) {
					return false
				}
			}
			return true
		}
		rs := []rune(alpha)
		sort.Slice(rs, func(i, j int) bool { return rs[i] < rs[j] })
		var parts []string
		for i := 0; i < len(rs); {
			j := i
			for j+1 < len(rs) && rs[j+1] <= rs[j]+1 {
				j++
			}
			if i == j {
				parts = append(parts, "(str.to_re "+smtChar(rs[i])+")")
			} else {
				parts = append(parts, "(re.range "+smtChar(rs[i])+" "+smtChar(rs[j])+")")
			}
			i = j + 1
		}
		cls := strings.Join(parts, " ")
		if len(parts) > 1 {
			cls = "(re.union " + cls + ")"
		}
		// a concatenation is over the alphabet iff each atom is; atoms of known shape are settled here
		over := func(chars string) bool {
			for _, c := range chars {
				if !strings.ContainsRune(alpha, c) {
					return false
				}
			}
			return true
		}
		var conj []*Term
		for _, at := range catAtoms(strTerm(args[0])) {
			switch {
			case at.Op == "cs":
				if !over(at.S) {
					return false
				}
			case at.Op == "var" && ex.plainVars[at] && over("abcdefghijklmnopqrstuvwxyz"):
			case at.Op == "var" && ex.isUUIDVar(at) && over("0123456789abcdef-"):
			default:
				conj = append(conj, mkStrOp("str.in_re", SBool, at, mkRaw("(re.* "+cls+")")))
			}
		}
		return lower(mkAnd(conj...))
	})
	reg(rt+"StrPlain", func(ex *Exec, fn *ssa.Function, args []Value, site string) Value {
		// non-empty, lower-case letters only
		if s, ok := args[0].(string); ok {
			if s == "" {
				return false
			}
			for _, c := range s {
				if c < 'a' || c > 'z' {
					return false
				}
			}
			return true
		}
		return lower(mkStrOp("str.in_re", SBool, strTerm(args[0]), mkRaw("(re.+ (re.range \"a\" \"z\"))")))
	})
	reg(rt+"StrHasPrefix", func(ex *Exec, fn *ssa.Function, args []Value, site string) Value {
		return lower(mkPrefixOf(strTerm(args[1]), strTerm(args[0])))
	})

	// ------------------------------------------------------------ engine controls / monitors
	reg(rt+"MapOrderAll", func(ex *Exec, fn *ssa.Function, args []Value, site string) Value {
		if args[0].(bool) {
			ex.mapOrder = mapAll
		} else {
			ex.mapOrder = mapInsertion
		}
		return nil
	})
	reg(rt+"Panics", func(ex *Exec, fn *ssa.Function, args []Value, site string) (res Value) {
		depth := ex.depth
		defer func() {
			if r := recover(); r != nil {
				if _, ok := r.(goPanic); ok {
					ex.depth = depth
					res = true
					return
				}
				panic(r)
			}
		}()
		ex.callValue(args[0], nil, site)
		return false
	})
	reg(rt+"Exits", func(ex *Exec, fn *ssa.Function, args []Value, site string) (res Value) {
		depth := ex.depth
		defer func() {
			if r := recover(); r != nil {
				if _, ok := r.(exitEvent); ok {
					ex.depth = depth
					res = true
					return
				}
				panic(r)
			}
		}()
		ex.callValue(args[0], nil, site)
		return false
	})
	reg(rt+"Snapshot", func(ex *Exec, fn *ssa.Function, args []Value, site string) Value {
		a := args[0].(Iface)
		ex.snaps = append(ex.snaps, ex.snapshot(a.V, a.T, 0))
		return int64(len(ex.snaps) - 1)
	})
	reg(rt+"SameAsSnapshot", func(ex *Exec, fn *ssa.Function, args []Value, site string) Value {
		a := args[1].(Iface)
		return lower(ex.snapEq(ex.snaps[args[0].(int64)], ex.snapshot(a.V, a.T, 0)))
	})
	reg(rt+"Havoc", func(ex *Exec, fn *ssa.Function, args []Value, site string) Value {
		if ex.concreteMode() {
			return nil
		}
		a := args[0].(Iface)
		ex.havoc(a.V, a.T, map[*Value]bool{}, 0)
		return nil
	})
	reg(rt+"Par2", func(ex *Exec, fn *ssa.Function, args []Value, site string) Value {
		if ex.concreteMode() {
			ex.callValue(args[1], nil, site)
			ex.callValue(args[2], nil, site)
			return nil
		}
		label := args[0].(string)
		// package initialisation happens before main: run every (lazy) initializer of the module now
		for _, p := range ex.prog.AllPackages() {
			if strings.HasPrefix(p.Pkg.Path(), "github.com/protobom/protobom/pkg/") {
				ex.ensureInit(p)
			}
		}
		// everything reachable from package-level variables exists before the goroutines start: shared
		seen := map[*Obj]bool{}
		cells := map[*Value]bool{}
		for _, g := range ex.globals {
			walkObjs(g, seen, cells, func(o *Obj) { o.Shared = true })
		}
		for _, m := range ex.syncMaps {
			m.O.Shared = true
		}
		ls := &locksetMon{held: map[*Value]int{}, acq: map[*Value]int{}}
		ex.mon.lockset = ls
		ls.thread = 1
		// the second goroutine's calls run, by decision, before any one of the first goroutine's API calls or after
		// the last: every interleaving at API-call granularity of (sequence, single block)
		ls.pending = func() {
			ls.pending = nil
			saveHeld, saveAcq, saveCall := ls.held, ls.acq, ls.call
			ls.thread, ls.held, ls.acq, ls.call = 2, map[*Value]int{}, map[*Value]int{}, 0
			ex.callValue(args[2], nil, site)
			ls.thread, ls.held, ls.acq, ls.call = 1, saveHeld, saveAcq, saveCall
		}
		ex.callValue(args[1], nil, site)
		if ls.pending != nil {
			ls.pending()
		}
		ex.mon.lockset = nil
		ex.res.monitorChecks += len(ls.events)
		ex.res.siteReach[label]++
		for _, r := range ls.races() {
			ex.witness(Violation{Site: label, Kind: "race", Msg: "lock discipline: " + r})
		}
		for _, r := range ls.nonAtomic() {
			ex.witness(Violation{Site: label, Kind: "race", Msg: "atomicity: " + r})
		}
		return nil
	})
	reg(rt+"Call", func(ex *Exec, fn *ssa.Function, args []Value, site string) Value {
		if ls := ex.mon.lockset; ls != nil {
			if ls.thread == 1 && ls.pending != nil && ex.chooseFree(2) == 1 {
				ls.pending()
			}
			ls.ncall++
			ls.call = ls.ncall
			defer func() { ls.call = 0 }()
		}
		ex.callValue(args[0], nil, site)
		return nil
	})
	reg(rt+"FSDir", func(ex *Exec, fn *ssa.Function, args []Value, site string) Value {
		fs := ex.fsys()
		if len(fs.dirs) == 0 {
			fs.dirs = append(fs.dirs, &fsEnt{path: mkStr("/base"), mode: 0o777})
		}
		if args[0].(bool) {
			fs.dirs = append(fs.dirs, &fsEnt{path: mkStr("/base/store"), mode: 0o755})
		}
		return "/base/store"
	})
	reg(rt+"FSFaults", func(ex *Exec, fn *ssa.Function, args []Value, site string) Value {
		ex.fsys().faults = args[0].(bool)
		return nil
	})
	reg(rt+"FSConfined", func(ex *Exec, fn *ssa.Function, args []Value, site string) Value {
		fs := ex.fsys()
		dir := strTerm(args[0])
		ok := []*Term{}
		for _, f := range fs.files {
			pre := mkConcat(dir, mkStr("/"))
			pa, da := catAtoms(f.path), catAtoms(pre)
			inside := tFalse
			if len(pa) > len(da) {
				same := true
				for i := range da {
					if da[i] != pa[i] {
						same = false
					}
				}
				if same {
					name := mkConcat(pa[len(da):]...)
					inside = mkAnd(slashFree(name), mkNot(mkEq(name, mkStr(".."))), mkNot(mkEq(name, mkStr("."))), mkNot(mkEq(name, mkStr(""))))
				}
			}
			if inside == tFalse && f.path.Op == "cs" && pre.Op == "cs" {
				name := strings.TrimPrefix(f.path.S, pre.S)
				inside = mkBool(strings.HasPrefix(f.path.S, pre.S) && !strings.Contains(name, "/") && name != ".." && name != "." && name != "")
			} else if inside == tFalse {
				name := ex.freshVar("confname", SStr, "string", false)
				inside = mkAnd(mkEq(f.path, mkConcat(pre, name)), mkNot(mkContains(name, mkStr("/"))), mkNot(mkEq(name, mkStr(".."))), mkNot(mkEq(name, mkStr("."))), mkNot(mkEq(name, mkStr(""))))
			}
			ok = append(ok, inside)
		}
		for _, d := range fs.dirs {
			ok = append(ok, mkOr(mkEq(d.path, dir), mkEq(d.path, mkStr("/base"))))
		}
		return lower(mkAnd(ok...))
	})
	reg(rt+"FSEntries", func(ex *Exec, fn *ssa.Function, args []Value, site string) Value {
		return int64(len(ex.fsys().files))
	})
	reg(rt+"FSCorrupt", func(ex *Exec, fn *ssa.Function, args []Value, site string) Value {
		fs := ex.fsys()
		how := args[1].(int64)
		for _, f := range fs.files {
			switch how {
			case 0:
				f.content = &blobVal{torn: mkInt(0), n: mkInt(0)}
			case 1:
				f.content = &blobVal{junk: true, n: mkInt(7)}
			case 2:
				f.mode = 0
			case 3:
				if b, ok := f.content.(*blobVal); ok && b.doc != nil {
					k := ex.freshVar("cut", SInt, "int", false)
					ex.assume(mkIntCmp("<", mkInt(0), k))
					ex.assume(mkIntCmp("<", k, b.n))
					f.content = &blobVal{doc: b.doc, typ: b.typ, torn: k, n: b.n, midField: true}
				}
			}
		}
		return nil
	})
	reg(rt+"CrashIterations", func(ex *Exec, fn *ssa.Function, args []Value, site string) Value { return int64(1) })
	reg(rt+"FSDirN", func(ex *Exec, fn *ssa.Function, args []Value, site string) Value {
		fs := ex.fsys()
		if len(fs.dirs) == 0 {
			fs.dirs = append(fs.dirs, &fsEnt{path: mkStr("/base"), mode: 0o777})
			fs.dirs = append(fs.dirs, &fsEnt{path: mkStr("/base/store"), mode: 0o755})
		}
		return "/base/store"
	})
	crashDuring := func(ex *Exec, f Value, site string) (res Value) {
		fs := ex.fsys()
		fs.armed = true
		depth := ex.depth
		defer func() {
			fs.armed = false
			if r := recover(); r != nil {
				if _, ok := r.(crashEvent); ok {
					ex.depth = depth
					res = true
					return
				}
				panic(r)
			}
		}()
		ex.callValue(f, nil, site)
		return false
	}
	reg(rt+"CrashDuringK", func(ex *Exec, fn *ssa.Function, args []Value, site string) Value {
		return crashDuring(ex, args[1], site)
	})
	reg(rt+"CrashDuring", func(ex *Exec, fn *ssa.Function, args []Value, site string) (res Value) {
		fs := ex.fsys()
		fs.armed = true
		depth := ex.depth
		defer func() {
			fs.armed = false
			if r := recover(); r != nil {
				if _, ok := r.(crashEvent); ok {
					ex.depth = depth
					res = true
					return
				}
				panic(r)
			}
		}()
		ex.callValue(args[0], nil, site)
		return false
	})
	reg(rt+"Freeze", func(ex *Exec, fn *ssa.Function, args []Value, site string) Value {
		ex.mon.freeze(ex, args[0].(string), sliceVals(args[1]))
		return nil
	})
	reg(rt+"Thaw", func(ex *Exec, fn *ssa.Function, args []Value, site string) Value {
		ex.mon.thaw()
		return nil
	})

	// ------------------------------------------------------------ stdlib stubs
	reg("slices.Clone", func(ex *Exec, fn *ssa.Function, args []Value, site string) Value {
		s := args[0].(Slice)
		if s.Nil {
			return s
		}
		arr := make([]Value, s.Len)
		for i := range arr {
			arr[i] = copyVal(s.Arr[s.Off+i])
		}
		return Slice{Arr: arr, Len: s.Len, Cap: s.Len, O: ex.newObj(site)}
	})
	reg("maps.Clone", func(ex *Exec, fn *ssa.Function, args []Value, site string) Value {
		m := args[0].(*Map)
		if m == nil {
			return m
		}
		n := &Map{O: ex.newObj(site)}
		for _, e := range m.Entries {
			n.Entries = append(n.Entries, mapEntry{copyVal(e.K), copyVal(e.V)})
		}
		return n
	})
	deepEq := func(ex *Exec, fn *ssa.Function, args []Value, site string) Value {
		a, b := args[0].(Iface), args[1].(Iface)
		if a.T == nil || b.T == nil {
			return a.T == nil && b.T == nil
		}
		if !types.Identical(a.T, b.T) {
			return false
		}
		return lower(ex.snapEq(ex.snapshot(a.V, a.T, 0), ex.snapshot(b.V, b.T, 0)))
	}
	reg("reflect.DeepEqual", deepEq)
	reg(rt+"DeepEq", deepEq)
	reg("github.com/google/go-cmp/cmp.Equal", deepEq)
	reg("sort.Strings", sortStrings)
	reg("slices.Sort", func(ex *Exec, fn *ssa.Function, args []Value, site string) Value {
		s := args[0].(Slice)
		if s.Len > 0 {
			if _, isInt := s.Arr[s.Off].(int64); isInt {
				return sortInts(ex, fn, args, site)
			}
		}
		return sortStrings(ex, fn, args, site)
	})
	reg("sort.Ints", sortInts)
	// comparator-driven sorts: stable insertion sort, comparator interpreted, outcome decided by the solver
	sortBy := func(ex *Exec, s Slice, less func(i, j int) Value, site string) {
		for i := 1; i < s.Len; i++ {
			for j := i; j > 0; j-- {
				r := less(j, j-1)
				var lt bool
				switch x := r.(type) {
				case bool:
					lt = x
				case *Term:
					lt = ex.decideBool(x)
				}
				if !lt {
					break
				}
				if s.O != nil && s.O.Frozen {
					ex.mon.frozenWrite(ex, s.O, site+" (sort swaps elements)", ex.differs(s.Arr[s.Off+j], s.Arr[s.Off+j-1]))
				}
				s.Arr[s.Off+j], s.Arr[s.Off+j-1] = s.Arr[s.Off+j-1], s.Arr[s.Off+j]
			}
		}
	}
	cmpSort := func(ex *Exec, fn *ssa.Function, args []Value, site string) Value {
		s := args[0].(Slice)
		sortBy(ex, s, func(i, j int) Value {
			r := ex.callValue(args[1], []Value{s.Arr[s.Off+i], s.Arr[s.Off+j]}, site)
			switch x := r.(type) {
			case int64:
				return x < 0
			case *Term:
				return lower(mkIntCmp("<", x, mkInt(0)))
			}
			panic(pathAbort{"unsupported: comparator result"})
		}, site)
		return nil
	}
	reg("slices.SortFunc", cmpSort)
	reg("slices.SortStableFunc", cmpSort)
	lessSort := func(ex *Exec, fn *ssa.Function, args []Value, site string) Value {
		s := args[0].(Iface).V.(Slice)
		sortBy(ex, s, func(i, j int) Value {
			return ex.callValue(args[1], []Value{int64(i), int64(j)}, site)
		}, site)
		return nil
	}
	reg("sort.Slice", lessSort)
	reg("sort.SliceStable", lessSort)
	reg("strings.Compare", func(ex *Exec, fn *ssa.Function, args []Value, site string) Value {
		a, aok := args[0].(string)
		b, bok := args[1].(string)
		if aok && bok {
			return int64(strings.Compare(a, b))
		}
		x, y := strTerm(args[0]), strTerm(args[1])
		return lower(mkIte(mkStrLt(x, y), mkInt(-1), mkIte(mkEq(x, y), mkInt(0), mkInt(1))))
	})
	reg("cmp.Compare", func(ex *Exec, fn *ssa.Function, args []Value, site string) Value {
		switch args[0].(type) {
		case string, *Term:
			if t, ok := args[0].(*Term); !ok || t.Sort == SStr {
				if _, ok := args[1].(int64); !ok {
					x, y := strTerm(args[0]), strTerm(args[1])
					return lower(mkIte(mkStrLt(x, y), mkInt(-1), mkIte(mkEq(x, y), mkInt(0), mkInt(1))))
				}
			}
		}
		x, y := intTerm(args[0]), intTerm(args[1])
		return lower(mkIte(mkIntCmp("<", x, y), mkInt(-1), mkIte(mkEq(x, y), mkInt(0), mkInt(1))))
	})
	reg("strings.EqualFold", func(ex *Exec, fn *ssa.Function, args []Value, site string) Value {
		a, aok := args[0].(string)
		b, bok := args[1].(string)
		if aok && bok {
			return strings.EqualFold(a, b)
		}
		return lower(mkEq(mkStrOp("str.to_lower", SStr, strTerm(args[0])), mkStrOp("str.to_lower", SStr, strTerm(args[1]))))
	})
	reg("strings.Join", func(ex *Exec, fn *ssa.Function, args []Value, site string) Value {
		s := args[0].(Slice)
		sep := strTerm(args[1])
		var parts []*Term
		for i := 0; i < s.Len; i++ {
			if i > 0 {
				parts = append(parts, sep)
			}
			parts = append(parts, strTerm(s.Arr[s.Off+i]))
		}
		return lower(mkConcat(parts...))
	})
	reg("strconv.Atoi", func(ex *Exec, fn *ssa.Function, args []Value, site string) Value {
		switch x := args[0].(type) {
		case string:
			n, err := strconv.Atoi(x)
			if err != nil {
				return Tuple{int64(0), mkErr(site, "atoi")}
			}
			return Tuple{int64(n), Iface{}}
		case *Term:
			// fork: parse error / a non-negative decimal / anything else integral
			if x.Op == "str.from_int" {
				return Tuple{x.Args[0], Iface{}}
			}
			if ex.chooseFree(2) == 0 {
				ex.assume(mkEq(mkStrOp("str.to_int", SInt, x), mkInt(-1)))
				return Tuple{int64(0), mkErr(site, "atoi")}
			}
			v := ex.freshVar("atoi", SInt, "int", false)
			ex.assume(mkIntCmp(">=", v, mkInt(0)))
			ex.assume(mkEq(mkStrOp("str.to_int", SInt, x), v))
			return Tuple{v, Iface{}}
		}
		panic("atoi")
	})
	reg("strconv.Itoa", func(ex *Exec, fn *ssa.Function, args []Value, site string) Value {
		return lower(mkFromInt(intTerm(args[0])))
	})
	reg("context.Background", func(ex *Exec, fn *ssa.Function, args []Value, site string) Value {
		return Iface{T: absType, V: &ctxAbs{}}
	})
	reg("context.TODO", func(ex *Exec, fn *ssa.Function, args []Value, site string) Value {
		return Iface{T: absType, V: &ctxAbs{}}
	})
	reg("context.WithValue", func(ex *Exec, fn *ssa.Function, args []Value, site string) Value {
		parent, _ := args[0].(Iface).V.(*ctxAbs)
		return Iface{T: absType, V: &ctxAbs{parent: parent, key: args[1], val: args[2]}}
	})
	reg("errors.New", func(ex *Exec, fn *ssa.Function, args []Value, site string) Value {
		return mkErr(site, args[0])
	})
	reg("fmt.Errorf", func(ex *Exec, fn *ssa.Function, args []Value, site string) Value {
		e := &errAbs{site: site, msg: args[0]}
		for _, a := range sliceVals(args[1]) {
			if ia, ok := a.(Iface); ok {
				if _, isErr := ia.V.(*errAbs); isErr {
					w := ia
					e.wraps = &w
				}
			}
		}
		return Iface{T: opaqueType, V: e}
	})
	reg("errors.Is", func(ex *Exec, fn *ssa.Function, args []Value, site string) Value {
		e, target := args[0].(Iface), args[1].(Iface)
		for e.T != nil {
			if ex.eqTerm(e, target, errorType) == tTrue {
				return true
			}
			if ta, ok := target.V.(*errAbs); ok {
				if ea, ok := e.V.(*errAbs); ok && ea.kind != "" {
					if ts, _ := ta.msg.(string); (ea.kind == "notexist" && strings.HasSuffix(ts, "ErrNotExist")) || (ea.kind == "permission" && strings.HasSuffix(ts, "ErrPermission")) || (ea.kind == "exist" && strings.HasSuffix(ts, "ErrExist")) {
						return true
					}
				}
			}
			ea, ok := e.V.(*errAbs)
			if !ok || ea.wraps == nil {
				break
			}
			e = *ea.wraps
		}
		return false
	})
	for _, n := range []string{"Info", "Infof", "Warn", "Warnf", "Debug", "Debugf", "Error", "Errorf", "Warning", "Warningf", "Print", "Printf", "Println", "Trace", "Tracef"} {
		reg("github.com/sirupsen/logrus."+n, noop)
	}
	for _, n := range []string{"Fatal", "Fatalf", "Fatalln"} {
		reg("github.com/sirupsen/logrus."+n, func(ex *Exec, fn *ssa.Function, args []Value, site string) Value {
			panic(exitEvent{site})
		})
	}
	reg("os.Exit", func(ex *Exec, fn *ssa.Function, args []Value, site string) Value { panic(exitEvent{site}) })
	reg("fmt.Printf", noop)
	reg("fmt.Println", noop)
	reg("fmt.Print", noop)
	strPred := func(name string, conc func(a, b string) bool, sym func(a, b *Term) *Term) {
		reg(name, func(ex *Exec, fn *ssa.Function, args []Value, site string) Value {
			a, aok := args[0].(string)
			b, bok := args[1].(string)
			if aok && bok {
				return conc(a, b)
			}
			return lower(sym(strTerm(args[0]), strTerm(args[1])))
		})
	}
	strPred("strings.HasPrefix", strings.HasPrefix, func(a, b *Term) *Term { return mkPrefixOf(b, a) })
	strPred("strings.HasSuffix", strings.HasSuffix, func(a, b *Term) *Term { return mkSuffixOf(b, a) })
	strPred("strings.Contains", strings.Contains, func(a, b *Term) *Term { return mkContains(a, b) })
	reg("strings.LastIndex", func(ex *Exec, fn *ssa.Function, args []Value, site string) Value {
		a, aok := args[0].(string)
		b, bok := args[1].(string)
		if aok && bok {
			return int64(strings.LastIndex(a, b))
		}
		if !bok || b == "" {
			panic(pathAbort{"unsupported: symbolic needle in strings.LastIndex"})
		}
		// the needle has a character no variable part can contain: it can only occur inside constant atoms
		atoms := catAtoms(strTerm(args[0]))
		for _, x := range atoms {
			if x.Op == "cs" {
				continue
			}
			for _, c := range b { // no needle character may occur in a variable part (no occurrence straddles one)
				if !ex.cannotContain(x, string(c)) {
					// an arbitrary string: absent (-1), or s = a ++ needle ++ r with no occurrence starting later
					st := strTerm(args[0])
					if !ex.decideBool(mkContains(st, mkStr(b))) {
						return int64(-1)
					}
					a := ex.freshVar("lastindexhead", SStr, "string", false)
					r := ex.freshVar("lastindextail", SStr, "string", false)
					ex.assume(mkEq(st, mkConcat(a, mkStr(b), r)))
					ex.assume(mkNot(mkContains(mkConcat(mkStr(b[1:]), r), mkStr(b))))
					return lower(mkStrOp("str.len", SInt, a))
				}
			}
		}
		for k := len(atoms) - 1; k >= 0; k-- {
			if atoms[k].Op == "cs" {
				if i := strings.LastIndex(atoms[k].S, b); i >= 0 {
					l := append(append([]*Term{}, atoms[:k]...), mkStr(atoms[k].S[:i]))
					return lower(lenSum(l))
				}
			}
		}
		return int64(-1)
	})
	// first occurrence of a needle that no variable part can contain or straddle (every needle character is foreign to
	// the variable atoms): it lies inside one constant atom; returns the atoms before it / after it
	firstIn := func(ex *Exec, t *Term, b string) (before, after []*Term, found, ok bool) {
		atoms := catAtoms(t)
		for _, x := range atoms {
			if x.Op == "cs" {
				continue
			}
			for _, c := range b {
				if !ex.cannotContain(x, string(c)) {
					return nil, nil, false, false
				}
			}
		}
		for k := 0; k < len(atoms); k++ {
			if atoms[k].Op == "cs" {
				if i := strings.Index(atoms[k].S, b); i >= 0 {
					before = append(append([]*Term{}, atoms[:k]...), mkStr(atoms[k].S[:i]))
					after = append([]*Term{mkStr(atoms[k].S[i+len(b):])}, atoms[k+1:]...)
					return before, after, true, true
				}
			}
		}
		return nil, nil, false, true
	}
	reg("strings.Index", func(ex *Exec, fn *ssa.Function, args []Value, site string) Value {
		a, aok := args[0].(string)
		b, bok := args[1].(string)
		if aok && bok {
			return int64(strings.Index(a, b))
		}
		if !bok || b == "" {
			panic(pathAbort{"unsupported: symbolic needle in strings.Index"})
		}
		before, _, found, ok := firstIn(ex, strTerm(args[0]), b)
		if !ok {
			// an arbitrary string: absent (-1) or the solver's str.indexof
			st := strTerm(args[0])
			if !ex.decideBool(mkContains(st, mkStr(b))) {
				return int64(-1)
			}
			return lower(mkStrOp("str.indexof", SInt, st, mkStr(b), mkInt(0)))
		}
		if !found {
			return int64(-1)
		}
		return lower(lenSum(before))
	})
	// strings.Fields on a symbolic string: all white space (no field), or one / two fields (fresh non-empty words
	// without white space that occur in the string); longer splits are cut
	reg("strings.Fields", func(ex *Exec, fn *ssa.Function, args []Value, site string) Value {
		mk := func(parts []Value) Value { return Slice{Arr: parts, Len: len(parts), Cap: len(parts), O: ex.newObj(site)} }
		if a, ok := args[0].(string); ok {
			var parts []Value
			for _, f := range strings.Fields(a) {
				parts = append(parts, f)
			}
			return mk(parts)
		}
		st := strTerm(args[0])
		ws := "(re.union (str.to_re \" \") (str.to_re \"\\u{9}\") (str.to_re \"\\u{a}\") (str.to_re \"\\u{d}\") (str.to_re \"\\u{b}\") (str.to_re \"\\u{c}\"))"
		if ex.decideBool(mkStrOp("str.in_re", SBool, st, mkRaw("(re.* "+ws+")"))) {
			return mk(nil)
		}
		word := "(re.+ (re.diff re.allchar " + ws + "))"
		n := 1 + ex.chooseFree(2)
		var parts []Value
		for i := 0; i < n; i++ {
			f := ex.freshVar("field", SStr, "string", false)
			ex.assume(mkStrOp("str.in_re", SBool, f, mkRaw(word)))
			ex.assume(mkContains(st, f))
			parts = append(parts, lower(f))
		}
		return mk(parts)
	})
	reg("strings.Cut", func(ex *Exec, fn *ssa.Function, args []Value, site string) Value {
		a, aok := args[0].(string)
		b, bok := args[1].(string)
		if aok && bok {
			x, y, f := strings.Cut(a, b)
			return Tuple{x, y, f}
		}
		if !bok || b == "" {
			panic(pathAbort{"unsupported: symbolic separator in strings.Cut"})
		}
		before, after, found, ok := firstIn(ex, strTerm(args[0]), b)
		if !ok {
			// an arbitrary string: decide whether the separator occurs; if it does, cut at its first occurrence
			s := strTerm(args[0])
			if !ex.decideBool(mkContains(s, mkStr(b))) {
				return Tuple{args[0], "", false}
			}
			idx := mkStrOp("str.indexof", SInt, s, mkStr(b), mkInt(0))
			n := mkStrOp("str.len", SInt, s)
			l := mkStrOp("str.substr", SStr, s, mkInt(0), idx)
			r := mkStrOp("str.substr", SStr, s, mkArith("+", idx, mkInt(int64(len(b)))), n)
			return Tuple{lower(l), lower(r), true}
		}
		if !found {
			return Tuple{args[0], "", false}
		}
		return Tuple{lower(mkConcat(before...)), lower(mkConcat(after...)), true}
	})
	reg("strings.ToLower", func(ex *Exec, fn *ssa.Function, args []Value, site string) Value {
		if a, ok := args[0].(string); ok {
			return strings.ToLower(a)
		}
		// cvc5 extension (ASCII case mapping); z3 answers unknown on it
		return lower(mkStrOp("str.to_lower", SStr, strTerm(args[0])))
	})
	reg("strings.TrimSpace", func(ex *Exec, fn *ssa.Function, args []Value, site string) Value {
		if a, ok := args[0].(string); ok {
			return strings.TrimSpace(a)
		}
		// s = l ++ r ++ t with l, t ASCII white space only and r neither starting nor ending with white space
		s := strTerm(args[0])
		{
			// constant white space at the ends is cut off; if what remains provably has no white space at its ends, done
			at := append([]*Term{}, catAtoms(s)...)
			if at[0].Op == "cs" {
				at[0] = mkStr(strings.TrimLeft(at[0].S, " \t\n\v\f\r"))
			}
			if at[len(at)-1].Op == "cs" {
				at[len(at)-1] = mkStr(strings.TrimRight(at[len(at)-1].S, " \t\n\v\f\r"))
			}
			inner := mkConcat(at...)
			if ex.trimmedEnds(inner, " \t\n\v\f\r", true, true) {
				return lower(inner)
			}
		}
		ws := "(re.union (str.to_re \" \") (str.to_re \"\\u{9}\") (str.to_re \"\\u{a}\") (str.to_re \"\\u{b}\") (str.to_re \"\\u{c}\") (str.to_re \"\\u{d}\"))"
		l := ex.freshVar("trimL", SStr, "string", false)
		r := ex.freshVar("trimmed", SStr, "string", false)
		t := ex.freshVar("trimR", SStr, "string", false)
		ex.assume(mkEq(s, mkConcat(l, r, t)))
		ex.assume(mkStrOp("str.in_re", SBool, l, mkRaw("(re.* "+ws+")")))
		ex.assume(mkStrOp("str.in_re", SBool, t, mkRaw("(re.* "+ws+")")))
		ex.assume(mkNot(mkStrOp("str.in_re", SBool, r, mkRaw("(re.union (re.++ "+ws+" re.all) (re.++ re.all "+ws+"))"))))
		return r
	})
	reg("strings.ToUpper", func(ex *Exec, fn *ssa.Function, args []Value, site string) Value {
		if a, ok := args[0].(string); ok {
			return strings.ToUpper(a)
		}
		return lower(mkStrOp("str.to_upper", SStr, strTerm(args[0])))
	})
	reg("strings.TrimPrefix", func(ex *Exec, fn *ssa.Function, args []Value, site string) Value {
		a, aok := args[0].(string)
		b, bok := args[1].(string)
		if aok && bok {
			return strings.TrimPrefix(a, b)
		}
		s, p := strTerm(args[0]), strTerm(args[1])
		if ex.decideBool(mkPrefixOf(p, s)) {
			rest := ex.freshVar("trimprefix", SStr, "string", false)
			ex.assume(mkEq(s, mkConcat(p, rest)))
			return rest
		}
		return args[0]
	})
	reg("strings.TrimSuffix", func(ex *Exec, fn *ssa.Function, args []Value, site string) Value {
		a, aok := args[0].(string)
		b, bok := args[1].(string)
		if aok && bok {
			return strings.TrimSuffix(a, b)
		}
		s, p := strTerm(args[0]), strTerm(args[1])
		if ex.decideBool(mkSuffixOf(p, s)) {
			rest := ex.freshVar("trimsuffix", SStr, "string", false)
			ex.assume(mkEq(s, mkConcat(rest, p)))
			return rest
		}
		return args[0]
	})
	reg("strings.ReplaceAll", func(ex *Exec, fn *ssa.Function, args []Value, site string) Value {
		a, aok := args[0].(string)
		b, bok := args[1].(string)
		c, cok := args[2].(string)
		if aok && bok && cok {
			return strings.ReplaceAll(a, b, c)
		}
		if bok && cok && len(b) == 1 {
			// a one-character pattern cannot match across atoms: replace atom by atom; a single symbolic character
			// (str.from_code) is decided against the pattern
			var out []*Term
			for _, at := range catAtoms(strTerm(args[0])) {
				switch {
				case at.Op == "cs":
					out = append(out, mkStr(strings.ReplaceAll(at.S, b, c)))
				case at.Op == "str.from_code":
					if ex.decideBool(mkEq(at.Args[0], mkInt(int64(b[0])))) {
						out = append(out, mkStr(c))
					} else {
						out = append(out, at)
					}
				default:
					out = append(out, mkStrOp("str.replace_all", SStr, at, mkStr(b), mkStr(c)))
				}
			}
			return lower(mkConcat(out...))
		}
		return lower(mkStrOp("str.replace_all", SStr, strTerm(args[0]), strTerm(args[1]), strTerm(args[2])))
	})
	reg("strings.Split", func(ex *Exec, fn *ssa.Function, args []Value, site string) Value {
		a, aok := args[0].(string)
		b, bok := args[1].(string)
		mk := func(parts []Value) Value {
			return Slice{Arr: parts, Len: len(parts), Cap: len(parts), O: ex.newObj(site)}
		}
		if aok && bok {
			var parts []Value
			for _, p := range strings.Split(a, b) {
				parts = append(parts, p)
			}
			return mk(parts)
		}
		if !bok || b == "" {
			panic(pathAbort{"unsupported: symbolic separator in strings.Split"})
		}
		// symbolic string, concrete separator: decide the number of separators (0..2), parts are fresh strings
		s := strTerm(args[0])
		n := ex.chooseFree(4)
		if n == 3 {
			ex.assume(mkContains(s, mkStr(b+b+b))) // more than two separators: outside the model
			panic(pathAbort{"unsupported: strings.Split with more than two separators"})
		}
		var parts []Value
		var cat []*Term
		for i := 0; i <= n; i++ {
			p := ex.freshVar("split", SStr, "string", false)
			ex.assume(mkNot(mkContains(p, mkStr(b))))
			parts = append(parts, p)
			if i > 0 {
				cat = append(cat, mkStr(b))
			}
			cat = append(cat, p)
		}
		ex.assume(mkEq(s, mkConcat(cat...)))
		return mk(parts)
	})
	reg("regexp.MustCompile", func(ex *Exec, fn *ssa.Function, args []Value, site string) Value {
		pat, ok := args[0].(string)
		if !ok {
			panic(pathAbort{"unsupported: symbolic regexp"})
		}
		re, err := regexp.Compile(pat)
		if err != nil {
			panic(goPanic{"regexp: Compile: " + err.Error(), site})
		}
		c := new(Value)
		*c = &regexpAbs{re: re}
		return Ptr{C: c, O: ex.newObj(site)}
	})
	reg("(*regexp.Regexp).ReplaceAllStringFunc", func(ex *Exec, fn *ssa.Function, args []Value, site string) Value {
		p := args[0].(Ptr)
		ra, ok := (*p.C).(*regexpAbs)
		if !ok {
			panic(pathAbort{"unsupported: regexp value"})
		}
		s, ok := args[1].(string)
		if !ok {
			return ex.regexpReplaceSym(ra.re, strTerm(args[1]), args[2], site)
		}
		return ra.re.ReplaceAllStringFunc(s, func(m string) string {
			r := ex.callValue(args[2], []Value{m}, site)
			if rs, ok := r.(string); ok {
				return rs
			}
			panic(pathAbort{"unsupported: symbolic regexp replacement"})
		})
	})
	reg("github.com/google/uuid.New", func(ex *Exec, fn *ssa.Function, args []Value, site string) Value {
		return uuidVal{ex.freshUUID()}
	})
	reg("github.com/google/uuid.NewString", func(ex *Exec, fn *ssa.Function, args []Value, site string) Value {
		return ex.freshUUID()
	})
	reg("(github.com/google/uuid.UUID).String", func(ex *Exec, fn *ssa.Function, args []Value, site string) Value {
		return args[0].(uuidVal).s
	})
	reg("strings.Repeat", func(ex *Exec, fn *ssa.Function, args []Value, site string) Value {
		a, aok := args[0].(string)
		n, nok := args[1].(int64)
		if aok && nok {
			if n < 0 {
				panic(goPanic{"strings: negative Repeat count", site})
			}
			return strings.Repeat(a, int(n))
		}
		// symbolic count: some string (only used for indentation, which the abstract JSON layer ignores)
		return ex.freshVar("repeat", SStr, "string", false)
	})
}

func noop(ex *Exec, fn *ssa.Function, args []Value, site string) Value { return nil }

func (ex *Exec) observe(s string) {
	ex.mon.obs = append(ex.mon.obs, s)
}

// insertion sort with solver-decided comparisons; writes only when out of order
func sortStrings(ex *Exec, fn *ssa.Function, args []Value, site string) Value {
	s := args[0].(Slice)
	for i := 1; i < s.Len; i++ {
		for j := i; j > 0; j-- {
			a, b := s.Arr[s.Off+j], s.Arr[s.Off+j-1]
			lt := mkStrLt(strTerm(a), strTerm(b))
			if !ex.decideBool(lt) {
				break
			}
			if s.O != nil && s.O.Frozen {
				ex.mon.frozenWrite(ex, s.O, site+" (sort swaps elements)", ex.differs(a, b))
			}
			s.Arr[s.Off+j], s.Arr[s.Off+j-1] = b, a
		}
	}
	return nil
}

func sortInts(ex *Exec, fn *ssa.Function, args []Value, site string) Value {
	s := args[0].(Slice)
	for i := 1; i < s.Len; i++ {
		for j := i; j > 0; j-- {
			a, b := s.Arr[s.Off+j], s.Arr[s.Off+j-1]
			if !ex.decideBool(mkIntCmp("<", intTerm(a), intTerm(b))) {
				break
			}
			if s.O != nil && s.O.Frozen {
				ex.mon.frozenWrite(ex, s.O, site+" (sort swaps elements)", ex.differs(a, b))
			}
			s.Arr[s.Off+j], s.Arr[s.Off+j-1] = b, a
		}
	}
	return nil
}

var _ = types.Universe

type regexpAbs struct{ re *regexp.Regexp }

type uuidVal struct{ s Value }

// freshUUID: a fresh string of the canonical UUID shape (hex digits and dashes), distinct from earlier ones.
func (ex *Exec) isUUIDVar(t *Term) bool {
	for _, u := range ex.uuids {
		if u == t {
			return true
		}
	}
	return false
}

func (ex *Exec) freshUUID() Value {
	if ex.concreteMode() {
		ex.nuuid++
		return fmt.Sprintf("00000000-0000-4000-8000-%012d", ex.nuuid)
	}
	v := ex.freshVar("uuid", SStr, "string", false)
	ex.assume(mkStrOp("str.in_re", SBool, v, mkRaw("(re.++ ((_ re.loop 8 8) (re.union (re.range \"0\" \"9\") (re.range \"a\" \"f\"))) (str.to_re \"-\") ((_ re.loop 4 4) (re.union (re.range \"0\" \"9\") (re.range \"a\" \"f\"))) (str.to_re \"-\") ((_ re.loop 4 4) (re.union (re.range \"0\" \"9\") (re.range \"a\" \"f\"))) (str.to_re \"-\") ((_ re.loop 4 4) (re.union (re.range \"0\" \"9\") (re.range \"a\" \"f\"))) (str.to_re \"-\") ((_ re.loop 12 12) (re.union (re.range \"0\" \"9\") (re.range \"a\" \"f\"))))")))
	for _, u := range ex.uuids {
		ex.assume(mkNot(mkEq(v, u)))
	}
	ex.uuids = append(ex.uuids, v)
	return v
}

// classOfPlus returns the rune ranges of C when the pattern is C+ for a character class C (after the parser has
// applied negation and case folding), which is the only symbolic-subject shape supported.
func classOfPlus(re *regexp.Regexp) ([]rune, bool) {
	rs, err := syntax.Parse(re.String(), syntax.Perl)
	if err != nil || rs.Op != syntax.OpPlus || len(rs.Sub) != 1 || rs.Sub[0].Op != syntax.OpCharClass {
		return nil, false
	}
	return rs.Sub[0].Rune, true
}

const maxCodePoint = 0x2FFFF // the solvers' string alphabet

// regexpReplaceSym: ReplaceAllStringFunc on a symbolic subject for patterns of the form C+. Constant atoms are matched
// concretely; a single symbolic character (str.from_code c) is decided against the class ranges by the solver, a
// matched one is pinned to the low end of its range (the replacement callback then runs concretely); any other
// symbolic atom must provably contain no character of the class.
func (ex *Exec) regexpReplaceSym(re *regexp.Regexp, t *Term, cb Value, site string) Value {
	rng, ok := classOfPlus(re)
	if !ok {
		panic(pathAbort{"unsupported: regexp replace on a symbolic string for pattern " + re.String()})
	}
	inClass := func(r rune) bool {
		for i := 0; i+1 < len(rng); i += 2 {
			if rng[i] <= r && r <= rng[i+1] {
				return true
			}
		}
		return false
	}
	var out []*Term
	run := ""
	flush := func() {
		if run == "" {
			return
		}
		r := ex.callValue(cb, []Value{run}, site)
		run = ""
		out = append(out, strTerm(r))
	}
	for _, at := range catAtoms(t) {
		switch {
		case at.Op == "cs":
			for _, ch := range at.S {
				if inClass(ch) {
					run += string(ch)
				} else {
					flush()
					out = append(out, mkStr(string(ch)))
				}
			}
		case at.Op == "str.from_code":
			c := at.Args[0]
			alts := []*Term{}
			var los []rune
			for i := 0; i+1 < len(rng); i += 2 {
				lo, hi := rng[i], rng[i+1]
				if lo > maxCodePoint {
					continue
				}
				if hi > maxCodePoint {
					hi = maxCodePoint
				}
				alts = append(alts, mkAnd(mkIntCmp("<=", mkInt(int64(lo)), c), mkIntCmp("<=", c, mkInt(int64(hi)))))
				los = append(los, lo)
			}
			var none []*Term
			for _, a := range alts {
				none = append(none, mkNot(a))
			}
			alts = append(alts, mkAnd(none...))
			k := ex.choose(alts)
			if k == len(alts)-1 {
				flush()
				out = append(out, at)
			} else {
				ex.assume(mkEq(c, mkInt(int64(los[k]))))
				run += string(los[k])
			}
		default:
			// complement of the class as an SMT regular expression
			var parts []string
			prev := rune(0)
			for i := 0; i+1 < len(rng); i += 2 {
				if rng[i] > prev {
					parts = append(parts, fmt.Sprintf("(re.range %s %s)", smtChar(prev), smtChar(rng[i]-1)))
				}
				prev = rng[i+1] + 1
			}
			if prev <= maxCodePoint {
				parts = append(parts, fmt.Sprintf("(re.range %s %s)", smtChar(prev), smtChar(maxCodePoint)))
			}
			cls := strings.Join(parts, " ")
			if len(parts) > 1 {
				cls = "(re.union " + cls + ")"
			}
			safe := mkStrOp("str.in_re", SBool, at, mkRaw("(re.* "+cls+")"))
			if len(parts) == 0 {
				safe = mkEq(at, mkStr(""))
			}
			if !ex.decideBool(safe) {
				panic(pathAbort{"unsupported: regexp replace on a symbolic string that may contain a match"})
			}
			flush()
			out = append(out, at)
		}
	}
	flush()
	return lower(mkConcat(out...))
}

func smtChar(r rune) string {
	if r > maxCodePoint {
		r = maxCodePoint
	}
	if r >= 0x20 && r < 0x7f && r != '"' && r != '\\' {
		return "\"" + string(r) + "\""
	}
	return fmt.Sprintf("\"\\u{%x}\"", r)
}
