package main

import (
	"go/types"
)

// Abstract (engine-implemented) values and their method dispatch.

var absType types.Type = types.NewNamed(types.NewTypeName(0, nil, "abstractValue", nil), types.NewStruct(nil, nil), nil)
var opaqueType types.Type = types.NewNamed(types.NewTypeName(0, nil, "opaqueError", nil), types.NewStruct(nil, nil), nil)
var errorType = types.Universe.Lookup("error").Type()

type absInvoker interface {
	invoke(ex *Exec, method string, args []Value, site string) Value
}

type absCall struct {
	recv   absInvoker
	method string
}

// errAbs is an opaque error value. msg is a string or a string *Term; wraps is the %w operand.
type errAbs struct {
	site  string
	msg   Value
	wraps *Iface
	kind  string // file-system error class (notexist, permission, io, ...)
}

func (e *errAbs) invoke(ex *Exec, method string, args []Value, site string) Value {
	switch method {
	case "Error":
		if e.msg == nil {
			return "error@" + e.site
		}
		return e.msg
	case "Unwrap":
		if e.wraps != nil {
			return *e.wraps
		}
		return Iface{}
	}
	panic(pathAbort{"unsupported: error." + method})
}

func mkErr(site string, msg Value) Iface {
	return Iface{T: opaqueType, V: &errAbs{site: site, msg: msg}}
}

// ctxAbs models context.Context as an association list.
type ctxAbs struct {
	parent   *ctxAbs
	key, val Value
}

func (c *ctxAbs) invoke(ex *Exec, method string, args []Value, site string) Value {
	switch method {
	case "Value":
		for x := c; x != nil; x = x.parent {
			if x.key != nil && ex.eqTerm(x.key, args[0], nil) == tTrue {
				return x.val
			}
		}
		return Iface{}
	case "Err":
		return Iface{}
	case "Done":
		return nil
	}
	panic(pathAbort{"unsupported: context." + method})
}

// TimeVal models time.Time as (unix seconds, nanoseconds) with possibly symbolic parts.
type TimeVal struct {
	Sec  Value // int64 | *Term
	Nsec Value // int64 | *Term, 0..999999999
	Zero bool  // the zero time.Time{}
}

// absZero gives zero values for types that are modelled abstractly.
func absZero(t types.Type) (Value, bool) {
	if n, ok := t.(*types.Named); ok && n.Obj().Pkg() != nil {
		switch n.Obj().Pkg().Path() + "." + n.Obj().Name() {
		case "github.com/google/uuid.UUID":
			return uuidVal{""}, true
		case "time.Time":
			return TimeVal{Sec: int64(-62135596800), Nsec: int64(0), Zero: true}, true
		}
	}
	return nil, false
}
