package main

import (
	"sync"
	"fmt"
	"go/constant"
	"go/token"
	"go/types"
	"strings"

	"golang.org/x/tools/go/ssa"
)

type fnInfo struct {
	idx map[ssa.Value]int32
	n   int
}

var fnInfos sync.Map // *ssa.Function -> *fnInfo

type unsetT struct{}

var unsetReg Value = &unsetT{}

func infoOf(fn *ssa.Function) *fnInfo {
	if v, ok := fnInfos.Load(fn); ok {
		return v.(*fnInfo)
	}
	fi := &fnInfo{idx: map[ssa.Value]int32{}}
	for _, p := range fn.Params {
		fi.idx[p] = int32(fi.n)
		fi.n++
	}
	for _, b := range fn.Blocks {
		for _, ins := range b.Instrs {
			if v, ok := ins.(ssa.Value); ok {
				fi.idx[v] = int32(fi.n)
				fi.n++
			}
		}
	}
	v, _ := fnInfos.LoadOrStore(fn, fi)
	return v.(*fnInfo)
}

func newFrame(fn *ssa.Function, env []Value) *frame {
	fi := infoOf(fn)
	fr := &frame{fn: fn, info: fi, regs: make([]Value, fi.n), env: env}
	for i := range fr.regs {
		fr.regs[i] = unsetReg
	}
	return fr
}

func (fr *frame) set(v ssa.Value, x Value) {
	fr.regs[fr.info.idx[v]] = x
}

type frame struct {
	fn     *ssa.Function
	info   *fnInfo
	regs   []Value
	env    []Value
	block  *ssa.BasicBlock
	prev   *ssa.BasicBlock
	defers []func()
	depth  int // call depth of this frame
}

// ---------------------------------------------------------------- values

func (ex *Exec) newObj(site string) *Obj {
	ex.nobj++
	return &Obj{ID: ex.nobj, Site: site, Epoch: ex.epoch}
}

func (ex *Exec) alloc(t types.Type, site string) Ptr {
	c := new(Value)
	*c = ex.zero(t)
	return Ptr{C: c, O: ex.newObj(site)}
}

func (ex *Exec) constValue(c *ssa.Const) Value {
	if c.Value == nil {
		return ex.zero(c.Type())
	}
	t := c.Type().Underlying()
	if b, ok := t.(*types.Basic); ok {
		switch {
		case b.Info()&types.IsBoolean != 0:
			return constant.BoolVal(c.Value)
		case b.Info()&types.IsInteger != 0:
			if i, ok := constant.Int64Val(constant.ToInt(c.Value)); ok {
				return i
			}
			u, _ := constant.Uint64Val(constant.ToInt(c.Value))
			return int64(u)
		case b.Info()&types.IsString != 0:
			if c.Value.Kind() == constant.String {
				return constant.StringVal(c.Value)
			}
			i, _ := constant.Int64Val(constant.ToInt(c.Value))
			return string(rune(i))
		case b.Info()&types.IsFloat != 0:
			f, _ := constant.Float64Val(c.Value)
			return f
		}
	}
	panic(fmt.Sprintf("const: unsupported %s", c))
}

func (ex *Exec) get(fr *frame, v ssa.Value) Value {
	switch x := v.(type) {
	case *ssa.Const:
		return ex.constValue(x)
	case *ssa.Global:
		return ex.global(x)
	case *ssa.Function:
		return x
	case *ssa.Builtin:
		return x
	case *ssa.FreeVar:
		for i, fv := range fr.fn.FreeVars {
			if fv == x {
				return fr.env[i]
			}
		}
	}
	if i, ok := fr.info.idx[v]; ok {
		if r := fr.regs[i]; r != unsetReg {
			return r
		}
	}
	panic(fmt.Sprintf("get: no value for %s (%T) in %s", v.Name(), v, fr.fn))
}

func (ex *Exec) global(g *ssa.Global) Ptr {
	if p, ok := ex.globals[g]; ok {
		return p
	}
	et := g.Type().(*types.Pointer).Elem()
	c := new(Value)
	*c = ex.zero(et)
	p := Ptr{C: c, O: &Obj{ID: -1 - len(ex.globals), Site: g.String(), Shared: true}}
	ex.globals[g] = p
	if g.Pkg != nil && allowedPkg(g.Pkg.Pkg.Path()) {
		ex.ensureInit(g.Pkg)
	} else if types.IsInterface(et) {
		// foreign sentinel (io.EOF, ...): a unique opaque value
		*c = Iface{T: opaqueType, V: &errAbs{site: g.String(), msg: g.String()}}
	}
	return p
}

// ensureInit runs the package initializer lazily, once per path, in lenient mode
// (calls that cannot be interpreted return zero values).
func (ex *Exec) ensureInit(p *ssa.Package) {
	if ex.pkgInit[p] {
		return
	}
	ex.pkgInit[p] = true
	fn := p.Func("init")
	if fn == nil || fn.Blocks == nil {
		return
	}
	ex.inInit++
	saveEpoch := ex.epoch
	ex.epoch = 0
	saveDepth := ex.depth
	defer func() {
		ex.inInit--
		ex.epoch = saveEpoch
		if r := recover(); r != nil {
			switch r.(type) {
			case goPanic, pathAbort:
				// lenient: generated registration code (protobuf descriptors) cannot be interpreted
				ex.depth = saveDepth
			default:
				panic(r)
			}
		}
	}()
	fr := newFrame(fn, nil)
	fr.depth = ex.depth
	ex.run(fr)
}

func (ex *Exec) load(p Ptr, site string) Value {
	if p.IsNil() {
		panic(goPanic{"nil pointer dereference", site})
	}
	if ex.mon.lockset != nil {
		ex.mon.access(ex, p.O, p.C, false, site)
	}
	return copyVal(*p.C)
}

func (ex *Exec) store(p Ptr, v Value, site string) {
	if p.IsNil() {
		panic(goPanic{"nil pointer dereference (store)", site})
	}
	if p.O != nil && p.O.Frozen {
		ex.mon.frozenWrite(ex, p.O, site, ex.differs(*p.C, v))
	}
	if len(ex.mon.frozenObjs) > 0 {
		ex.res.monitorChecks++
	}
	if ex.mon.lockset != nil {
		ex.mon.access(ex, p.O, p.C, true, site)
	}
	assignCell(p.C, v)
}

// equality as a term (no forking)
func (ex *Exec) eqTerm(a, b Value, t types.Type) *Term {
	switch x := a.(type) {
	case string, *Term:
		if bt, ok := b.(*Term); ok {
			if at, ok := a.(*Term); ok {
				return mkEq(at, bt)
			}
			switch av := a.(type) {
			case string:
				return mkEq(mkStr(av), bt)
			}
		}
		if at, ok := a.(*Term); ok {
			switch bv := b.(type) {
			case string:
				return mkEq(at, mkStr(bv))
			case int64:
				return mkEq(at, mkInt(bv))
			case bool:
				return mkEq(at, mkBool(bv))
			}
		}
		return mkBool(a == b)
	case int64:
		if bt, ok := b.(*Term); ok {
			return mkEq(mkInt(x), bt)
		}
		return mkBool(x == b.(int64))
	case bool:
		if bt, ok := b.(*Term); ok {
			return mkEq(mkBool(x), bt)
		}
		return mkBool(x == b.(bool))
	case float64:
		return mkBool(x == b.(float64))
	case Ptr:
		return mkBool(x.C == b.(Ptr).C)
	case *Map:
		return mkBool(x == b.(*Map))
	case Slice:
		y := b.(Slice)
		return mkBool(x.Nil && y.Nil) // only nil comparison is legal
	case *Closure:
		y, _ := b.(*Closure)
		return mkBool(x == nil && y == nil)
	case TimeVal:
		y := b.(TimeVal)
		return mkAnd(mkEq(intTerm(x.Sec), intTerm(y.Sec)), mkEq(intTerm(x.Nsec), intTerm(y.Nsec)))
	case *ssa.Function:
		return mkBool(false)
	case nil:
		return mkBool(b == nil)
	case Iface:
		y := b.(Iface)
		if x.T == nil || y.T == nil {
			return mkBool(x.T == nil && y.T == nil)
		}
		if !types.Identical(x.T, y.T) {
			return tFalse
		}
		if _, ok := x.V.(absInvoker); ok {
			return mkBool(x.V == y.V)
		}
		return ex.eqTerm(x.V, y.V, x.T)
	case Struct:
		y := b.(Struct)
		st := t.Underlying().(*types.Struct)
		var cs []*Term
		for i := range x {
			cs = append(cs, ex.eqTerm(x[i], y[i], st.Field(i).Type()))
		}
		return mkAnd(cs...)
	case Array:
		y := b.(Array)
		var cs []*Term
		for i := range x {
			cs = append(cs, ex.eqTerm(x[i], y[i], t.Underlying().(*types.Array).Elem()))
		}
		return mkAnd(cs...)
	}
	if _, ok := a.(absInvoker); ok {
		return mkBool(a == b)
	}
	panic(fmt.Sprintf("eqTerm: unsupported %T", a))
}

func (ex *Exec) binop(op token.Token, a, b Value, t types.Type, site string) Value {
	switch op {
	case token.EQL:
		return lower(ex.eqTerm(a, b, t))
	case token.NEQ:
		return lower(mkNot(ex.eqTerm(a, b, t)))
	}
	_, asym := a.(*Term)
	_, bsym := b.(*Term)
	if isBoolType(t) {
		x, y := boolTerm(a), boolTerm(b)
		switch op {
		case token.AND, token.LAND:
			return lower(mkAnd(x, y))
		case token.OR, token.LOR:
			return lower(mkOr(x, y))
		}
	}
	if isFloatType(t) && !asym && !bsym {
		x, y := a.(float64), b.(float64)
		switch op {
		case token.ADD:
			return x + y
		case token.SUB:
			return x - y
		case token.MUL:
			return x * y
		case token.QUO:
			return x / y
		case token.LSS:
			return x < y
		case token.LEQ:
			return x <= y
		case token.GTR:
			return x > y
		case token.GEQ:
			return x >= y
		}
	}
	if isStringType(t) {
		if !asym && !bsym {
			x, y := a.(string), b.(string)
			switch op {
			case token.ADD:
				return x + y
			case token.LSS:
				return x < y
			case token.LEQ:
				return x <= y
			case token.GTR:
				return x > y
			case token.GEQ:
				return x >= y
			}
		}
		x, y := strTerm(a), strTerm(b)
		switch op {
		case token.ADD:
			return lower(mkConcat(x, y))
		case token.LSS:
			return lower(mkStrLt(x, y))
		case token.GTR:
			return lower(mkStrLt(y, x))
		case token.LEQ:
			return lower(mkNot(mkStrLt(y, x)))
		case token.GEQ:
			return lower(mkNot(mkStrLt(x, y)))
		}
	}
	if isIntType(t) {
		if !asym && !bsym {
			x, y := a.(int64), b.(int64)
			switch op {
			case token.ADD:
				return wrapInt(x+y, t)
			case token.SUB:
				return wrapInt(x-y, t)
			case token.MUL:
				return wrapInt(x*y, t)
			case token.QUO:
				if y == 0 {
					panic(goPanic{"integer divide by zero", site})
				}
				return wrapInt(x/y, t)
			case token.REM:
				if y == 0 {
					panic(goPanic{"integer divide by zero", site})
				}
				return wrapInt(x%y, t)
			case token.AND:
				return x & y
			case token.OR:
				return x | y
			case token.XOR:
				return x ^ y
			case token.AND_NOT:
				return x &^ y
			case token.SHL:
				return wrapInt(x<<uint(y), t)
			case token.SHR:
				return x >> uint(y)
			case token.LSS:
				return x < y
			case token.LEQ:
				return x <= y
			case token.GTR:
				return x > y
			case token.GEQ:
				return x >= y
			}
		}
		x, y := intTerm(a), intTerm(b)
		switch op {
		case token.ADD:
			return lower(mkArith("+", x, y))
		case token.SUB:
			return lower(mkArith("-", x, y))
		case token.MUL:
			if x.Op == "ci" || y.Op == "ci" {
				return lower(mkArith("*", x, y))
			}
		case token.QUO, token.REM:
			// Go truncates toward zero; SMT div/mod floor. Supported for a positive constant divisor.
			if y.Op == "ci" && y.I > 0 {
				nonneg := mkIntCmp(">=", x, mkInt(0))
				if op == token.QUO {
					return lower(mkIte(nonneg, mkArith("div", x, y), mkArith("-", mkInt(0), mkArith("div", mkArith("-", mkInt(0), x), y))))
				}
				return lower(mkIte(nonneg, mkArith("mod", x, y), mkArith("-", mkInt(0), mkArith("mod", mkArith("-", mkInt(0), x), y))))
			}
		case token.LSS:
			return lower(mkIntCmp("<", x, y))
		case token.LEQ:
			return lower(mkIntCmp("<=", x, y))
		case token.GTR:
			return lower(mkIntCmp(">", x, y))
		case token.GEQ:
			return lower(mkIntCmp(">=", x, y))
		}
	}
	panic(pathAbort{fmt.Sprintf("unsupported: binop %s on %T,%T", op, a, b)})
}

// ---------------------------------------------------------------- maps

func (ex *Exec) mapFind(m *Map, k Value, kt types.Type) int {
	if m == nil {
		return -1
	}
	var alts []*Term
	var idx []int
	var none []*Term
	for i, e := range m.Entries {
		eq := ex.simp(ex.eqTerm(e.K, k, kt))
		if eq == tTrue {
			return i
		}
		if eq == tFalse {
			continue
		}
		alts = append(alts, eq)
		idx = append(idx, i)
		none = append(none, mkNot(eq))
	}
	if len(alts) == 0 {
		return -1
	}
	alts = append(alts, mkAnd(none...))
	c := ex.choose(alts)
	if c == len(alts)-1 {
		return -1
	}
	return idx[c]
}

// ---------------------------------------------------------------- calls

func (ex *Exec) callValue(fv Value, args []Value, site string) Value {
	switch f := fv.(type) {
	case *absCall:
		return f.recv.invoke(ex, f.method, args, site)
	case *ssa.Function:
		return ex.callFn(f, args, nil, site)
	case *Closure:
		if f == nil {
			panic(goPanic{"call of nil func", site})
		}
		return ex.callFn(f.Fn, args, f.Env, site)
	case *nativeFn:
		return f.f(ex, args, site)
	}
	panic(fmt.Sprintf("callValue: %T", fv))
}

// nativeFn is an engine-implemented function value.
type nativeFn struct {
	name string
	f    func(ex *Exec, args []Value, site string) Value
}

func fnKey(fn *ssa.Function) string {
	if fn.Origin() != nil {
		return fn.Origin().String()
	}
	return fn.String()
}

func fnPkgPath(fn *ssa.Function) string {
	if pk := fn.Package(); pk != nil {
		return pk.Pkg.Path()
	}
	if o := fn.Origin(); o != nil && o.Package() != nil {
		return o.Package().Pkg.Path()
	}
	if fn.Signature.Recv() != nil {
		t := fn.Signature.Recv().Type()
		if p, ok := t.(*types.Pointer); ok {
			t = p.Elem()
		}
		if n, ok := t.(*types.Named); ok && n.Obj().Pkg() != nil {
			return n.Obj().Pkg().Path()
		}
	}
	if fn.Parent() != nil {
		return fnPkgPath(fn.Parent())
	}
	return ""
}

func (ex *Exec) callFn(fn *ssa.Function, args []Value, env []Value, site string) Value {
	name := fnKey(fn)
	if h, ok := intrinsics[name]; ok {
		ex.res.stubs[name]++
		return h(ex, fn, args, site)
	}
	if fn.Name() == "ProtoReflect" && fn.Signature.Recv() != nil {
		if pt, ok := fn.Signature.Recv().Type().(*types.Pointer); ok {
			if nm, ok := pt.Elem().(*types.Named); ok {
				ex.res.stubs["ProtoReflect"]++
				return Iface{T: absType, V: &protoMsg{ptr: args[0].(Ptr), named: nm}}
			}
		}
	}
	if fn.Name() == "String" && fn.Signature.Recv() != nil {
		if nm, ok := fn.Signature.Recv().Type().(*types.Named); ok && nm.Obj().Pkg() != nil && strings.HasSuffix(nm.Obj().Pkg().Path(), "protobom/pkg/sbom") {
			if _, isEnum := ex.sh.enumTab[nm.Obj().Name()]; isEnum {
				ex.res.stubs["enum.String"]++
				return ex.enumString(nm.Obj().Name(), args[0])
			}
		}
	}
	if fn.Name() == "init" && fn.Synthetic != "" && fn.Pkg != nil && fn.Signature.Recv() == nil && fn.Parent() == nil {
		// dependency initializers run lazily, on first access to one of their package-level variables
		return nil
	}
	p := fnPkgPath(fn)
	if fn.Blocks == nil || !allowedPkg(p) {
		if ex.inInit > 0 {
			return ex.zeroResult(fn.Signature)
		}
		ex.res.unsupported[name]++
		panic(pathAbort{"unsupported: callee " + name})
	}
	ex.res.funcs[name]++
	ex.depth++
	if ex.depth > ex.sh.cfg.MaxDepth {
		panic(pathAbort{"unwind: call depth at " + name})
	}
	fr := newFrame(fn, env)
	fr.depth = ex.depth
	for i, p := range fn.Params {
		fr.set(p, args[i])
	}
	r := ex.run(fr)
	ex.depth--
	return r
}

func (ex *Exec) zeroResult(sig *types.Signature) Value {
	switch sig.Results().Len() {
	case 0:
		return nil
	case 1:
		return ex.zero(sig.Results().At(0).Type())
	}
	return ex.zero(sig.Results())
}

var allowedPkgs = map[string]bool{
	"sort": true, "slices": true, "maps": true, "cmp": true, "unicode/utf8": true, "unicode": true,
	"github.com/CycloneDX/cyclonedx-go":               true,
	"github.com/spdx/tools-golang/spdx/v2/common":     true,
	"github.com/spdx/tools-golang/spdx/v2/v2_3":       true,
	"github.com/spdx/tools-golang/spdx":               true,
	"github.com/spdx/tools-golang/json":               true,
	"github.com/spdx/tools-golang/convert":            true,
	"google.golang.org/protobuf/types/known/timestamppb": true,
	"sigs.k8s.io/release-utils/version":               true,
}

func allowedPkg(p string) bool {
	if strings.HasPrefix(p, "github.com/protobom/protobom") {
		return true
	}
	return allowedPkgs[p]
}

func (ex *Exec) run(fr *frame) (result Value) {
	res, pv := ex.runGuarded(fr, fr.fn.Blocks[0])
	if pv == nil {
		return res
	}
	// a Go panic unwinds through this frame: run the pending defers; one of them may recover()
	gp := pv.(goPanic)
	ex.panics = append(ex.panics, &panicState{p: gp})
	st := ex.panics[len(ex.panics)-1]
	depth := fr.depth
	ex.depth = depth
	// recover() stops the panic only when the deferred function itself calls it (not a function it calls)
	st.deferDepth = depth + 1
	ds := fr.defers
	fr.defers = nil
	for i := len(ds) - 1; i >= 0; i-- {
		ds[i]()
	}
	ex.panics = ex.panics[:len(ex.panics)-1]
	if !st.recovered {
		panic(gp)
	}
	ex.depth = depth
	if fr.fn.Recover == nil {
		return ex.zeroResult(fr.fn.Signature)
	}
	res, pv = ex.runGuarded(fr, fr.fn.Recover)
	if pv != nil {
		panic(pv)
	}
	return res
}

type panicState struct {
	p          goPanic
	recovered  bool
	deferDepth int
}

// runGuarded runs from block b; a Go-level panic carrying an interpreted goPanic is returned instead of propagated.
func (ex *Exec) runGuarded(fr *frame, b *ssa.BasicBlock) (result Value, pv interface{}) {
	defer func() {
		if r := recover(); r != nil {
			if gp, ok := r.(goPanic); ok {
				pv = gp
				return
			}
			panic(r)
		}
	}()
	return ex.runBlocks(fr, b), nil
}

func (ex *Exec) runBlocks(fr *frame, start *ssa.BasicBlock) (result Value) {
	fr.block = start
	for {
		var next *ssa.BasicBlock
		for _, ins := range fr.block.Instrs {
			ex.steps++
			if ex.steps > ex.sh.cfg.MaxSteps {
				panic(pathAbort{"unwind: step budget"})
			}
			switch in := ins.(type) {
			case *ssa.Return:
				switch len(in.Results) {
				case 0:
					result = nil
				case 1:
					result = ex.get(fr, in.Results[0])
				default:
					tu := make(Tuple, len(in.Results))
					for i, r := range in.Results {
						tu[i] = ex.get(fr, r)
					}
					result = tu
				}
				return result
			case *ssa.Jump:
				next = fr.block.Succs[0]
			case *ssa.If:
				c := ex.get(fr, in.Cond)
				var b bool
				switch cv := c.(type) {
				case bool:
					b = cv
				case *Term:
					b = ex.decideBool(cv)
				}
				if b {
					next = fr.block.Succs[0]
				} else {
					next = fr.block.Succs[1]
				}
			case *ssa.Panic:
				panic(goPanic{fmt.Sprintf("panic(%v)", describe(ex.get(fr, in.X))), ex.pos2(in)})
			case *ssa.RunDefers:
				ds := fr.defers
				fr.defers = nil
				for i := len(ds) - 1; i >= 0; i-- {
					ds[i]()
				}
			default:
				ex.exec(fr, ins)
			}
		}
		fr.prev, fr.block = fr.block, next
	}
}

func describe(v Value) string {
	switch x := v.(type) {
	case Iface:
		return describe(x.V)
	case *errAbs:
		return fmt.Sprint(x.msg)
	case string:
		return x
	case *Term:
		return "<symbolic>"
	}
	return fmt.Sprintf("%T", v)
}

func (ex *Exec) pos2(in ssa.Instruction) string {
	if s, ok := ex.posCache[in]; ok {
		return s
	}
	s := ex.pos2slow(in)
	ex.posCache[in] = s
	return s
}

func (ex *Exec) pos2slow(in ssa.Instruction) string {
	p := ex.prog.Fset.Position(in.Pos())
	if !p.IsValid() {
		return in.Parent().String()
	}
	return fmt.Sprintf("%s:%d", p.Filename, p.Line)
}

func (ex *Exec) exec(fr *frame, ins ssa.Instruction) {
	switch in := ins.(type) {
	case *ssa.DebugRef:
	case *ssa.Alloc:
		p := ex.alloc(in.Type().(*types.Pointer).Elem(), ex.pos2(in))
		fr.set(in, p)
	case *ssa.Phi:
		for i, pred := range fr.block.Preds {
			if pred == fr.prev {
				fr.set(in, ex.get(fr, in.Edges[i]))
				break
			}
		}
	case *ssa.BinOp:
		fr.set(in, ex.binop(in.Op, ex.get(fr, in.X), ex.get(fr, in.Y), in.X.Type(), ex.pos2(in)))
	case *ssa.UnOp:
		x := ex.get(fr, in.X)
		switch in.Op {
		case token.MUL:
			fr.set(in, ex.load(x.(Ptr), ex.pos2(in)))
		case token.NOT:
			switch b := x.(type) {
			case bool:
				fr.set(in, !b)
			case *Term:
				fr.set(in, lower(mkNot(b)))
			}
		case token.SUB:
			switch v := x.(type) {
			case int64:
				fr.set(in, wrapInt(-v, in.Type()))
			case float64:
				fr.set(in, -v)
			default:
				panic(pathAbort{"unsupported: symbolic negation"})
			}
		case token.XOR:
			fr.set(in, wrapInt(^x.(int64), in.Type()))
		default:
			panic(pathAbort{"unsupported: unop " + in.Op.String()})
		}
	case *ssa.Store:
		ex.store(ex.get(fr, in.Addr).(Ptr), ex.get(fr, in.Val), ex.pos2(in))
	case *ssa.FieldAddr:
		p := ex.get(fr, in.X).(Ptr)
		if p.IsNil() {
			panic(goPanic{"nil pointer dereference (field)", ex.pos2(in)})
		}
		s := (*p.C).(Struct)
		fr.set(in, Ptr{C: &s[in.Field], O: p.O})
	case *ssa.Field:
		fr.set(in, copyVal(ex.get(fr, in.X).(Struct)[in.Field]))
	case *ssa.IndexAddr:
		x := ex.get(fr, in.X)
		i := ex.concreteInt(ex.get(fr, in.Index))
		switch c := x.(type) {
		case Slice:
			if i < 0 || i >= c.Len {
				panic(goPanic{fmt.Sprintf("index out of range [%d] with length %d", i, c.Len), ex.pos2(in)})
			}
			fr.set(in, Ptr{C: &c.Arr[c.Off+i], O: c.O})
		case Ptr: // pointer to array
			if c.IsNil() {
				panic(goPanic{"nil pointer dereference (index)", ex.pos2(in)})
			}
			a := (*c.C).(Array)
			if i < 0 || i >= len(a) {
				panic(goPanic{"index out of range", ex.pos2(in)})
			}
			fr.set(in, Ptr{C: &a[i], O: c.O})
		default:
			panic(fmt.Sprintf("indexaddr %T", x))
		}
	case *ssa.Index:
		x := ex.get(fr, in.X)
		i := ex.concreteInt(ex.get(fr, in.Index))
		switch c := x.(type) {
		case Array:
			fr.set(in, copyVal(c[i]))
		case string:
			if i < 0 || i >= len(c) {
				panic(goPanic{"index out of range (string)", ex.pos2(in)})
			}
			fr.set(in, int64(c[i]))
		case *Term:
			fr.set(in, ex.symStringByte(c, i, ex.pos2(in)))
		default:
			panic(pathAbort{fmt.Sprintf("unsupported: index on %T", x)})
		}
	case *ssa.Slice:
		fr.set(in, ex.sliceOp(fr, in))
	case *ssa.MakeSlice:
		n := ex.concreteInt(ex.get(fr, in.Len))
		c := ex.concreteInt(ex.get(fr, in.Cap))
		et := in.Type().Underlying().(*types.Slice).Elem()
		arr := make([]Value, c)
		for i := range arr {
			arr[i] = ex.zero(et)
		}
		fr.set(in, Slice{Arr: arr, Len: n, Cap: c, O: ex.newObj(ex.pos2(in))})
	case *ssa.MakeMap:
		fr.set(in, &Map{O: ex.newObj(ex.pos2(in))})
	case *ssa.MapUpdate:
		m := ex.get(fr, in.Map).(*Map)
		if m == nil {
			panic(goPanic{"assignment to entry in nil map", ex.pos2(in)})
		}
		if m.O != nil && m.O.Frozen {
			ex.mon.frozenWrite(ex, m.O, ex.pos2(in), tTrue)
		}
		if ex.mon.lockset != nil {
			ex.mon.access(ex, m.O, nil, true, ex.pos2(in))
		}
		k := ex.get(fr, in.Key)
		v := copyVal(ex.get(fr, in.Value))
		kt := in.Map.Type().Underlying().(*types.Map).Key()
		if i := ex.mapFind(m, k, kt); i >= 0 {
			m.Entries[i].V = v
		} else {
			m.Entries = append(m.Entries, mapEntry{k, v})
		}
	case *ssa.Lookup:
		x := ex.get(fr, in.X)
		switch m := x.(type) {
		case *Map:
			mt := in.X.Type().Underlying().(*types.Map)
			if m != nil && ex.mon.lockset != nil {
				ex.mon.access(ex, m.O, nil, false, ex.pos2(in))
			}
			i := ex.mapFind(m, ex.get(fr, in.Index), mt.Key())
			var v Value
			if i >= 0 {
				v = copyVal(m.Entries[i].V)
			} else {
				v = ex.zero(mt.Elem())
			}
			if in.CommaOk {
				fr.set(in, Tuple{v, i >= 0})
			} else {
				fr.set(in, v)
			}
		case string:
			i := ex.concreteInt(ex.get(fr, in.Index))
			if i < 0 || i >= len(m) {
				panic(goPanic{"index out of range (string)", ex.pos2(in)})
			}
			fr.set(in, int64(m[i]))
		case *Term:
			fr.set(in, ex.symStringByte(m, ex.concreteInt(ex.get(fr, in.Index)), ex.pos2(in)))
		default:
			panic(pathAbort{fmt.Sprintf("unsupported: lookup on %T", x)})
		}
	case *ssa.Range:
		x := ex.get(fr, in.X)
		switch m := x.(type) {
		case *Map:
			it := &MapIter{}
			if m != nil {
				if ex.mon.lockset != nil {
					ex.mon.access(ex, m.O, nil, false, ex.pos2(in))
				}
				it.Entries = append(it.Entries, m.Entries...)
				if ex.mapOrder == mapAll && len(it.Entries) > 1 {
					it.Entries = ex.permute(it.Entries)
				}
			}
			fr.set(in, it)
		case string:
			s := m
			fr.set(in, &MapIter{Str: &s})
		default:
			panic(pathAbort{fmt.Sprintf("unsupported: range over %T", x)})
		}
	case *ssa.Next:
		it := ex.get(fr, in.Iter).(*MapIter)
		if it.Str != nil {
			s := *it.Str
			if it.Pos >= len(s) {
				fr.set(in, Tuple{false, int64(0), int64(0)})
			} else {
				for i, r := range s[it.Pos:] {
					_ = i
					fr.set(in, Tuple{true, int64(it.Pos), int64(r)})
					it.Pos += len(string(r))
					break
				}
			}
			break
		}
		if it.Pos >= len(it.Entries) {
			fr.set(in, Tuple{false, nil, nil})
		} else {
			e := it.Entries[it.Pos]
			it.Pos++
			fr.set(in, Tuple{true, copyVal(e.K), copyVal(e.V)})
		}
	case *ssa.Extract:
		fr.set(in, ex.get(fr, in.Tuple).(Tuple)[in.Index])
	case *ssa.MakeClosure:
		env := make([]Value, len(in.Bindings))
		for i, b := range in.Bindings {
			env[i] = ex.get(fr, b)
		}
		fr.set(in, &Closure{Fn: in.Fn.(*ssa.Function), Env: env})
	case *ssa.MakeInterface:
		fr.set(in, Iface{T: in.X.Type(), V: ex.get(fr, in.X)})
	case *ssa.ChangeInterface:
		fr.set(in, ex.get(fr, in.X))
	case *ssa.ChangeType:
		fr.set(in, ex.get(fr, in.X))
	case *ssa.Convert:
		fr.set(in, ex.convert(ex.get(fr, in.X), in.X.Type(), in.Type()))
	case *ssa.TypeAssert:
		x := ex.get(fr, in.X).(Iface)
		ok := false
		if x.T != nil {
			if types.IsInterface(in.AssertedType) {
				ok = types.AssignableTo(x.T, in.AssertedType)
			} else {
				ok = types.Identical(x.T, in.AssertedType)
			}
		}
		var v Value
		if ok {
			if types.IsInterface(in.AssertedType) {
				v = x
			} else {
				v = x.V
			}
		} else {
			v = ex.zero(in.AssertedType)
		}
		if in.CommaOk {
			fr.set(in, Tuple{v, ok})
		} else {
			if !ok {
				panic(goPanic{"interface conversion failed", ex.pos2(in)})
			}
			fr.set(in, v)
		}
	case *ssa.Call:
		fr.set(in, ex.call(fr, in.Common(), ex.pos2(in)))
	case *ssa.Defer:
		cc := in.Common()
		args := ex.evalArgs(fr, cc)
		site := ex.pos2(in)
		fv, recv := ex.resolve(fr, cc, site)
		fr.defers = append(fr.defers, func() {
			if b, ok := fv.(*ssa.Builtin); ok {
				ex.builtin(b, args, cc, site)
				return
			}
			if recv != nil {
				ex.callValue(fv, append([]Value{recv}, args...), site)
			} else {
				ex.callValue(fv, args, site)
			}
		})
	default:
		panic(pathAbort{fmt.Sprintf("unsupported: instruction %T", ins)})
	}
}

func (ex *Exec) concreteInt(v Value) int {
	switch x := v.(type) {
	case int64:
		return int(x)
	case *Term:
		panic(pathAbort{"unsupported: symbolic index/length"})
	}
	panic(fmt.Sprintf("concreteInt %T", v))
}

func (ex *Exec) evalArgs(fr *frame, cc *ssa.CallCommon) []Value {
	args := make([]Value, len(cc.Args))
	for i, a := range cc.Args {
		args[i] = ex.get(fr, a)
	}
	return args
}

func (ex *Exec) resolve(fr *frame, cc *ssa.CallCommon, site string) (fv Value, recv Value) {
	if cc.IsInvoke() {
		iv := ex.get(fr, cc.Value).(Iface)
		if iv.T == nil {
			panic(goPanic{"invoke on nil interface", site})
		}
		if a, ok := iv.V.(absInvoker); ok {
			return &absCall{recv: a, method: cc.Method.Name()}, nil
		}
		m := ex.prog.LookupMethod(iv.T, cc.Method.Pkg(), cc.Method.Name())
		if m == nil {
			panic(pathAbort{"unsupported: no method " + cc.Method.Name() + " on " + iv.T.String()})
		}
		return m, iv.V
	}
	return ex.get(fr, cc.Value), nil
}

func (ex *Exec) call(fr *frame, cc *ssa.CallCommon, site string) Value {
	args := ex.evalArgs(fr, cc)
	fv, recv := ex.resolve(fr, cc, site)
	if b, ok := fv.(*ssa.Builtin); ok {
		return ex.builtin(b, args, cc, site)
	}
	if recv != nil {
		args = append([]Value{recv}, args...)
	}
	return ex.callValue(fv, args, site)
}

func (ex *Exec) convert(v Value, from, to types.Type) Value {
	switch {
	case isIntType(from) && isIntType(to):
		if i, ok := v.(int64); ok {
			return wrapInt(i, to)
		}
		return v
	case isStringType(from) && isStringType(to):
		return v
	case isIntType(from) && isStringType(to):
		if i, ok := v.(int64); ok {
			return string(rune(i))
		}
	case isStringType(from):
		if t, ok := v.(*Term); ok {
			if _, ok := to.Underlying().(*types.Slice); ok {
				return BytesView{t}
			}
		}
		if sl, ok := to.Underlying().(*types.Slice); ok {
			if s, ok := v.(string); ok && isIntType(sl.Elem()) {
				arr := make([]Value, len(s))
				for i := range arr {
					arr[i] = int64(s[i])
				}
				return Slice{Arr: arr, Len: len(s), Cap: len(s), O: ex.newObj("conv")}
			}
		}
	}
	if bv, ok := v.(BytesView); ok && isStringType(to) {
		return bv.t
	}
	if jb, ok := v.(*jsonBytes); ok && isStringType(to) {
		if jb.tree == nil {
			return ""
		}
		if jb.tree.kind == jStr {
			return lower(mkConcat(mkStr("\""), strTerm(jb.tree.v), mkStr("\"")))
		}
		if s, ok := renderConcrete(jb.tree); ok {
			return s
		}
		panic(pathAbort{"unsupported: string(data) of a non-scalar JSON value"})
	}
	if _, ok := from.Underlying().(*types.Slice); ok && isStringType(to) {
		s := v.(Slice)
		b := make([]byte, s.Len)
		for i := range b {
			b[i] = byte(s.Arr[s.Off+i].(int64))
		}
		return string(b)
	}
	if _, ok := v.(float64); ok {
		return v
	}
	panic(pathAbort{fmt.Sprintf("unsupported: convert %s -> %s (%T)", from, to, v)})
}

func (ex *Exec) sliceOp(fr *frame, in *ssa.Slice) Value {
	x := ex.get(fr, in.X)
	idx := func(v ssa.Value, def int) int {
		if v == nil {
			return def
		}
		return ex.concreteInt(ex.get(fr, v))
	}
	switch c := x.(type) {
	case Slice:
		lo := idx(in.Low, 0)
		hi := idx(in.High, c.Len)
		mx := idx(in.Max, c.Cap)
		if lo < 0 || hi < lo || mx < hi || mx > c.Cap {
			panic(goPanic{"slice bounds out of range", ex.pos2(in)})
		}
		if c.Nil && lo == 0 && hi == 0 {
			return c
		}
		return Slice{Arr: c.Arr, Off: c.Off + lo, Len: hi - lo, Cap: mx - lo, O: c.O}
	case Ptr:
		a := (*c.C).(Array)
		lo := idx(in.Low, 0)
		hi := idx(in.High, len(a))
		mx := idx(in.Max, len(a))
		if lo < 0 || hi < lo || mx < hi || mx > len(a) {
			panic(goPanic{"slice bounds out of range", ex.pos2(in)})
		}
		return Slice{Arr: []Value(a), Off: lo, Len: hi - lo, Cap: mx - lo, O: c.O}
	case string:
		lo := idx(in.Low, 0)
		hi := idx(in.High, len(c))
		if lo < 0 || hi < lo || hi > len(c) {
			panic(goPanic{"slice bounds out of range (string)", ex.pos2(in)})
		}
		return c[lo:hi]
	case *Term:
		// a symbolic string cut at positions that are syntactically atom boundaries (plus constant offsets)
		t := c
		var lowT, highT *Term
		if in.Low != nil {
			lowT = intTerm(ex.get(fr, in.Low))
		}
		if in.High != nil {
			highT = intTerm(ex.get(fr, in.High))
		}
		// fast path: the bounds are syntactically atom boundaries; otherwise the bounds are checked by the solver
		// (out of range = the run-time panic) and the result is str.substr
		general := func() Value {
			n := mkStrOp("str.len", SInt, c)
			lo, hi := mkInt(0), n
			if lowT != nil {
				lo = lowT
			}
			if highT != nil {
				hi = highT
			}
			inRange := mkAnd(mkIntCmp("<=", mkInt(0), lo), mkIntCmp("<=", lo, hi), mkIntCmp("<=", hi, n))
			if !ex.decideBool(inRange) {
				panic(goPanic{"slice bounds out of range (string)", ex.pos2(in)})
			}
			return lower(mkStrOp("str.substr", SStr, c, lo, mkArith("-", hi, lo)))
		}
		if highT != nil {
			l, _, ok := splitAt(t, highT)
			if !ok {
				return general()
			}
			t = l
		}
		if lowT != nil && !(lowT.Op == "ci" && lowT.I == 0) {
			_, r, ok := splitAt(t, lowT)
			if !ok {
				return general()
			}
			t = r
		}
		return lower(t)
	}
	panic(pathAbort{fmt.Sprintf("unsupported: slice of %T", x)})
}

func growCap(old, need int) int {
	if old == 0 {
		return need
	}
	c := old
	for c < need {
		if c < 256 {
			c *= 2
		} else {
			c += (c + 768) / 4
		}
	}
	return c
}

func (ex *Exec) builtin(b *ssa.Builtin, args []Value, cc *ssa.CallCommon, site string) Value {
	switch b.Name() {
	case "len":
		switch x := args[0].(type) {
		case Slice:
			return int64(x.Len)
		case string:
			return int64(len(x))
		case *Term:
			return lower(mkStrLen(x))
		case *blobVal:
			if x.n != nil {
				return lower(x.n)
			}
			return int64(0)
		case *jsonBytes:
			if x.tree == nil {
				return int64(0)
			}
			return int64(2)
		case *textBytes:
			return int64(len(x.lines))
		case BytesView:
			return lower(mkStrLen(x.t))
		case *Map:
			if x == nil {
				return int64(0)
			}
			return int64(len(x.Entries))
		case Array:
			return int64(len(x))
		case Ptr:
			return int64(len((*x.C).(Array)))
		}
	case "cap":
		switch x := args[0].(type) {
		case Slice:
			return int64(x.Cap)
		}
	case "append":
		s := args[0].(Slice)
		var add []Value
		switch e := args[1].(type) {
		case Slice:
			for i := 0; i < e.Len; i++ {
				add = append(add, copyVal(e.Arr[e.Off+i]))
			}
		case string:
			for i := 0; i < len(e); i++ {
				add = append(add, int64(e[i]))
			}
		default:
			panic(pathAbort{fmt.Sprintf("unsupported: append %T", e)})
		}
		if len(add) == 0 {
			return s
		}
		if s.Len+len(add) <= s.Cap {
			if s.O != nil && s.O.Frozen {
				var neq []*Term
				for i, v := range add {
					neq = append(neq, ex.differs(s.Arr[s.Off+s.Len+i], v))
				}
				ex.mon.frozenWrite(ex, s.O, site+" (append into spare capacity)", mkOr(neq...))
			}
			for i, v := range add {
				if ex.mon.lockset != nil {
					ex.mon.access(ex, s.O, &s.Arr[s.Off+s.Len+i], true, site)
				}
				s.Arr[s.Off+s.Len+i] = v
			}
			s.Len += len(add)
			s.Nil = false
			return s
		}
		nc := growCap(s.Cap, s.Len+len(add))
		et := cc.Args[0].Type().Underlying().(*types.Slice).Elem()
		arr := make([]Value, nc)
		for i := 0; i < s.Len; i++ {
			arr[i] = s.Arr[s.Off+i]
		}
		for i, v := range add {
			arr[s.Len+i] = v
		}
		for i := s.Len + len(add); i < nc; i++ {
			arr[i] = ex.zero(et)
		}
		return Slice{Arr: arr, Len: s.Len + len(add), Cap: nc, O: ex.newObj(site)}
	case "copy":
		d := args[0].(Slice)
		switch s := args[1].(type) {
		case Slice:
			n := d.Len
			if s.Len < n {
				n = s.Len
			}
			tmp := make([]Value, n)
			for i := 0; i < n; i++ {
				tmp[i] = copyVal(s.Arr[s.Off+i])
			}
			for i := 0; i < n; i++ {
				if ex.mon.lockset != nil {
					ex.mon.access(ex, d.O, &d.Arr[d.Off+i], true, site)
				}
				if d.O != nil && d.O.Frozen {
					ex.mon.frozenWrite(ex, d.O, site+" (copy)", ex.differs(d.Arr[d.Off+i], tmp[i]))
				}
				d.Arr[d.Off+i] = tmp[i]
			}
			return int64(n)
		}
	case "delete":
		m := args[0].(*Map)
		if m == nil {
			return nil
		}
		if m.O != nil && m.O.Frozen {
			ex.mon.frozenWrite(ex, m.O, site, tTrue)
		}
		if ex.mon.lockset != nil {
			ex.mon.access(ex, m.O, nil, true, site)
		}
		kt := cc.Args[0].Type().Underlying().(*types.Map).Key()
		if i := ex.mapFind(m, args[1], kt); i >= 0 {
			m.Entries = append(append([]mapEntry{}, m.Entries[:i]...), m.Entries[i+1:]...)
		}
		return nil
	case "print", "println":
		return nil
	case "clear":
		switch x := args[0].(type) {
		case *Map:
			if x != nil {
				if x.O != nil && x.O.Frozen && len(x.Entries) > 0 {
					ex.mon.frozenWrite(ex, x.O, site+" (clear)", tTrue)
				}
				x.Entries = nil
			}
			return nil
		case Slice:
			var et types.Type
			if st, ok := cc.Args[0].Type().Underlying().(*types.Slice); ok {
				et = st.Elem()
			}
			for i := 0; i < x.Len && et != nil; i++ {
				x.Arr[x.Off+i] = ex.zero(et)
			}
			return nil
		}
		panic(pathAbort{fmt.Sprintf("unsupported: builtin clear %T", args[0])})
	case "recover":
		if n := len(ex.panics); n > 0 && !ex.panics[n-1].recovered && ex.depth == ex.panics[n-1].deferDepth {
			ex.panics[n-1].recovered = true
			return Iface{T: types.Typ[types.String], V: "runtime error: " + ex.panics[n-1].p.msg}
		}
		return Iface{}
	case "ssa:wrapnilchk":
		if p, ok := args[0].(Ptr); ok && p.IsNil() {
			panic(goPanic{"value method called using nil pointer", site})
		}
		return args[0]
	}
	panic(pathAbort{"unsupported: builtin " + b.Name() + fmt.Sprintf(" %T", args[0])})
}


// permute chooses an iteration order through decisions (selection without replacement).
func (ex *Exec) permute(es []mapEntry) []mapEntry {
	rest := append([]mapEntry{}, es...)
	var out []mapEntry
	for len(rest) > 1 {
		c := ex.chooseFree(len(rest))
		out = append(out, rest[c])
		rest = append(rest[:c], rest[c+1:]...)
	}
	return append(out, rest...)
}

// symStringByte: s[i] on a symbolic string with a concrete index: bounds decided by the solver; the byte is the
// character code (strings are modelled as ASCII text where bytes are inspected).
func (ex *Exec) symStringByte(s *Term, i int, site string) Value {
	if i < 0 || !ex.decideBool(mkIntCmp("<", mkInt(int64(i)), mkStrOp("str.len", SInt, s))) {
		panic(goPanic{"index out of range (string)", site})
	}
	code := mkStrOp("str.to_code", SInt, mkStrOp("str.at", SStr, s, mkInt(int64(i))))
	ex.assume(mkIntCmp("<=", code, mkInt(127)))
	return lower(code)
}
