package main

import (
	"time"

	"golang.org/x/tools/go/ssa"
)

// time.Time is modelled as TimeVal (unix seconds, nanoseconds); see abs.go.

func init() {
	reg := func(name string, f intrinsic) { intrinsics[name] = f }
	reg("time.Unix", func(ex *Exec, fn *ssa.Function, args []Value, site string) Value {
		sec, nsec := args[0], args[1]
		if s, ok := sec.(int64); ok {
			if n, ok := nsec.(int64); ok {
				t := time.Unix(s, n)
				return TimeVal{Sec: t.Unix(), Nsec: int64(t.Nanosecond())}
			}
		}
		// symbolic nanoseconds are assumed to be in [0, 1e9) (harness ranges guarantee it): no carry
		if n, ok := nsec.(*Term); ok {
			if !ex.feasible(mkAnd(mkIntCmp("<=", mkInt(0), n), mkIntCmp("<", n, mkInt(1000000000)))) {
				panic(pathAbort{"unsupported: symbolic nanoseconds outside [0,1e9)"})
			}
			if ex.feasible(mkOr(mkIntCmp("<", n, mkInt(0)), mkIntCmp(">=", n, mkInt(1000000000)))) {
				panic(pathAbort{"unsupported: symbolic nanoseconds may leave [0,1e9)"})
			}
		}
		return TimeVal{Sec: sec, Nsec: nsec}
	})
	reg("(time.Time).UTC", func(ex *Exec, fn *ssa.Function, args []Value, site string) Value { return args[0] })
	reg("(time.Time).Local", func(ex *Exec, fn *ssa.Function, args []Value, site string) Value { return args[0] })
	reg("(time.Time).Unix", func(ex *Exec, fn *ssa.Function, args []Value, site string) Value { return args[0].(TimeVal).Sec })
	reg("(time.Time).Nanosecond", func(ex *Exec, fn *ssa.Function, args []Value, site string) Value { return args[0].(TimeVal).Nsec })
	// Sub: the duration in nanoseconds (the saturation at +-292 years is outside the value ranges harnesses use)
	reg("(time.Time).Sub", func(ex *Exec, fn *ssa.Function, args []Value, site string) Value {
		a, b := args[0].(TimeVal), args[1].(TimeVal)
		ds := mkArith("-", intTerm(a.Sec), intTerm(b.Sec))
		dn := mkArith("-", intTerm(a.Nsec), intTerm(b.Nsec))
		return lower(mkArith("+", mkArith("*", ds, mkInt(1000000000)), dn))
	})
	reg("(time.Duration).Abs", func(ex *Exec, fn *ssa.Function, args []Value, site string) Value {
		d := intTerm(args[0])
		if ex.decideBool(mkIntCmp("<", d, mkInt(0))) {
			return lower(mkArith("-", mkInt(0), d))
		}
		return lower(d)
	})
	reg("(time.Time).Before", func(ex *Exec, fn *ssa.Function, args []Value, site string) Value {
		a, b := args[0].(TimeVal), args[1].(TimeVal)
		return lower(mkOr(mkIntCmp("<", intTerm(a.Sec), intTerm(b.Sec)), mkAnd(mkEq(intTerm(a.Sec), intTerm(b.Sec)), mkIntCmp("<", intTerm(a.Nsec), intTerm(b.Nsec)))))
	})
	reg("(time.Time).After", func(ex *Exec, fn *ssa.Function, args []Value, site string) Value {
		a, b := args[1].(TimeVal), args[0].(TimeVal)
		return lower(mkOr(mkIntCmp("<", intTerm(a.Sec), intTerm(b.Sec)), mkAnd(mkEq(intTerm(a.Sec), intTerm(b.Sec)), mkIntCmp("<", intTerm(a.Nsec), intTerm(b.Nsec)))))
	})
	reg("(time.Time).IsZero", func(ex *Exec, fn *ssa.Function, args []Value, site string) Value {
		t := args[0].(TimeVal)
		return lower(mkAnd(mkEq(intTerm(t.Sec), mkInt(-62135596800)), mkEq(intTerm(t.Nsec), mkInt(0))))
	})
	reg("(time.Time).Equal", func(ex *Exec, fn *ssa.Function, args []Value, site string) Value {
		a, b := args[0].(TimeVal), args[1].(TimeVal)
		return lower(mkAnd(mkEq(intTerm(a.Sec), intTerm(b.Sec)), mkEq(intTerm(a.Nsec), intTerm(b.Nsec))))
	})
	reg("(time.Time).Format", func(ex *Exec, fn *ssa.Function, args []Value, site string) Value {
		t := args[0].(TimeVal)
		layout, _ := args[1].(string)
		if sec, ok := t.Sec.(int64); ok {
			if ns, ok := t.Nsec.(int64); ok {
				return time.Unix(sec, ns).UTC().Format(layout)
			}
		}
		// symbolic instant: the rendering is an uninterpreted, injective-per-second function of the seconds
		if layout == time.RFC3339 {
			u := mkUF("rfc3339", SStr, intTerm(t.Sec))
			known := false
			for _, p := range ex.rfcapps {
				if p == u {
					known = true
				}
			}
			if !known {
				// a rendered instant is never empty and determines its second
				ex.assume(mkNot(mkEq(u, mkStr(""))))
				for _, p := range ex.rfcapps {
					ex.assume(mkImplies(mkEq(u, p), mkEq(u.Args[0], p.Args[0])))
				}
				ex.rfcapps = append(ex.rfcapps, u)
			}
			return lower(u)
		}
		panic(pathAbort{"unsupported: symbolic Time.Format layout " + layout})
	})
	reg("sigs.k8s.io/release-utils/version.GetVersionInfo", func(ex *Exec, fn *ssa.Function, args []Value, site string) Value {
		return ex.zero(fn.Signature.Results().At(0).Type())
	})
	reg("(*google.golang.org/protobuf/types/known/timestamppb.Timestamp).String", func(ex *Exec, fn *ssa.Function, args []Value, site string) Value {
		// prototext rendering (never RFC 3339): "seconds:S nanos:N" with zero fields omitted
		p := args[0].(Ptr)
		if p.IsNil() {
			return "<nil>"
		}
		st := (*p.C).(Struct)
		sec, ns := st[len(st)-2], st[len(st)-1]
		secT, nsT := intTerm(sec), intTerm(ns)
		secS := mkIte(mkEq(secT, mkInt(0)), mkStr(""), mkConcat(mkStr("seconds:"), mkFromInt(secT)))
		nsS := mkIte(mkEq(nsT, mkInt(0)), mkStr(""), mkConcat(mkStr("nanos:"), mkFromInt(nsT)))
		both := mkAnd(mkNot(mkEq(secT, mkInt(0))), mkNot(mkEq(nsT, mkInt(0))))
		return lower(mkConcat(secS, mkIte(both, mkStr(" "), mkStr("")), nsS))
	})
	reg("time.Parse", func(ex *Exec, fn *ssa.Function, args []Value, site string) Value {
		layout, _ := args[0].(string)
		if v, ok := args[1].(string); ok {
			t, err := time.Parse(layout, v)
			if err != nil {
				return Tuple{TimeVal{Sec: int64(-62135596800), Nsec: int64(0), Zero: true}, mkErr(site, "time: parse error")}
			}
			return Tuple{TimeVal{Sec: t.Unix(), Nsec: int64(t.Nanosecond())}, Iface{}}
		}
		x := strTerm(args[1])
		if x.Op == "uf" && x.Name == "rfc3339" {
			// the rendering of an instant parses back to that instant (to the second)
			return Tuple{TimeVal{Sec: lower(x.Args[0]), Nsec: int64(0)}, Iface{}}
		}
		// any other text: either it does not parse, or it denotes some instant
		if ex.chooseFree(2) == 0 {
			return Tuple{TimeVal{Sec: int64(-62135596800), Nsec: int64(0), Zero: true}, mkErr(site, "time: parse error")}
		}
		s := ex.freshVar("parsed", SInt, "int", false)
		ex.assume(mkIntCmp("<=", mkInt(-62135596800), s))
		ex.assume(mkIntCmp("<=", s, mkInt(253402300799)))
		return Tuple{TimeVal{Sec: s, Nsec: int64(0)}, Iface{}}
	})
	reg("time.Now", func(ex *Exec, fn *ssa.Function, args []Value, site string) Value {
		if ex.concreteMode() {
			return TimeVal{Sec: int64(1700000000), Nsec: int64(0)}
		}
		s := ex.freshVar("now", SInt, "int", false)
		ex.assume(mkIntCmp("<=", mkInt(1600000000), s))
		ex.assume(mkIntCmp("<=", s, mkInt(4000000000)))
		return TimeVal{Sec: s, Nsec: int64(0)}
	})
}
