package main

import (
	"bytes"
	"context"
	"encoding/json"
	"fmt"
	"os"
	"os/exec"
	"path/filepath"
	"sort"
	"strings"
	"sync"
	"time"
)

// NativeResult is the outcome of replaying recorded values against the natively compiled code.
type NativeResult struct {
	Reproduced bool     `json:"reproduced"`
	Tries      int      `json:"tries"`
	Failed     []string `json:"failed_sites,omitempty"`
	Panic      string   `json:"panic,omitempty"`
	Invalid    string   `json:"invalid,omitempty"`
	Exit       int      `json:"exit"`
	TimedOut   bool     `json:"timed_out,omitempty"`
	Obs        []string `json:"-"`
	Output     string   `json:"output,omitempty"`
}

type ReplayFile struct {
	Property string        `json:"property"`
	Harness  string        `json:"harness"`
	Site     string        `json:"site"`
	Kind     string        `json:"kind"`
	Msg      string        `json:"msg,omitempty"`
	Region   string        `json:"region,omitempty"`
	Tier     string        `json:"tier"`
	RepoHead string        `json:"repo_head"`
	Values   []ReplayValue `json:"values"`
	Trace    []int32       `json:"decisions,omitempty"`
	Model    map[string]string `json:"model,omitempty"`
	SMT      string        `json:"smt,omitempty"`
	Native   *NativeResult `json:"native,omitempty"`
}

type nativeBuild struct {
	once    sync.Once
	scratch string
	bin     string
	err     error
	root    string
	names   []string
	race    bool
	raceBin string // built on demand when a race-kind counterexample has to be confirmed and the main binary is not -race
	useRace bool
}

func (nb *nativeBuild) overlayFiles() map[string]string {
	m := map[string]string{}
	hs, _ := filepath.Glob(filepath.Join(nb.root, "harness", "verifh", "*.go"))
	for _, f := range hs {
		m[filepath.Join(repoDir(), "internal/verifh", filepath.Base(f))] = f
	}
	rs, _ := filepath.Glob(filepath.Join(nb.root, "harness", "verifrt_native", "*.go"))
	for _, f := range rs {
		m[filepath.Join(repoDir(), "internal/verifrt", filepath.Base(f))] = f
	}
	return m
}

func (nb *nativeBuild) build() error {
	nb.once.Do(func() {
		dir, err := os.MkdirTemp("", "gosym-native-")
		if err != nil {
			nb.err = err
			return
		}
		nb.scratch = dir
		var sb strings.Builder
		sb.WriteString("package verifh\n\nimport (\n\t\"fmt\"\n\t\"os\"\n\t\"runtime/debug\"\n\t\"testing\"\n\n\t\"github.com/protobom/protobom/internal/verifrt\"\n)\n\nvar registry = map[string]func(){\n")
		sort.Strings(nb.names)
		for _, n := range nb.names {
			fmt.Fprintf(&sb, "\t%q: %s,\n", n, n)
		}
		sb.WriteString("}\n\nfunc TestReplay(t *testing.T) {\n\th := verifrt.Load(os.Getenv(\"VERIF_REPLAY\"))\n\tf := registry[h]\n\tif f == nil {\n\t\tfmt.Println(\"VERIF-INVALID no such harness\", h)\n\t\treturn\n\t}\n\tfunc() {\n\t\tdefer func() {\n\t\t\tif r := recover(); r != nil {\n\t\t\t\tfmt.Printf(\"VERIF-PANIC %v\\n%s\\n\", r, debug.Stack())\n\t\t\t}\n\t\t}()\n\t\tf()\n\t}()\n\tfmt.Println()\n\tfor _, s := range verifrt.Failed {\n\t\tfmt.Printf(\"VERIF-ASSERT-FAILED site=%s\\n\", s)\n\t}\n\tfor _, o := range verifrt.Obs {\n\t\tfmt.Printf(\"VERIF-OBS %s\\n\", o)\n\t}\n\tif verifrt.Invalid != \"\" {\n\t\tfmt.Printf(\"VERIF-INVALID %s\\n\", verifrt.Invalid)\n\t}\n\tfmt.Println(\"VERIF-DONE\")\n}\n")
		drv := filepath.Join(dir, "zz_replay_test.go")
		os.WriteFile(drv, []byte(sb.String()), 0o644)
		ov := nb.overlayFiles()
		ov[filepath.Join(repoDir(), "internal/verifh/zz_replay_test.go")] = drv
		b, _ := json.Marshal(map[string]any{"Replace": ov})
		ovf := filepath.Join(dir, "overlay.json")
		os.WriteFile(ovf, b, 0o644)
		nb.bin = filepath.Join(dir, "replay.test")
		args := []string{"test", "-c", "-vet=off", "-overlay", ovf, "-o", nb.bin}
		if nb.race {
			args = append(args, "-race")
		}
		args = append(args, "./internal/verifh")
		cmd := exec.Command("go", args...)
		cmd.Dir = repoDir()
		cmd.Env = append(os.Environ(), "GOFLAGS=-mod=mod", "GOPROXY=off", "GOSUMDB=off", "GOTOOLCHAIN=local")
		out, err := cmd.CombinedOutput()
		if err != nil {
			nb.err = fmt.Errorf("native build failed: %v\n%s", err, out)
		}
	})
	return nb.err
}

// buildRace builds the replay binary once more with the race detector (same overlay).
func (nb *nativeBuild) buildRace() error {
	if nb.raceBin != "" || nb.race {
		return nil
	}
	if err := nb.build(); err != nil {
		return err
	}
	bin := filepath.Join(nb.scratch, "replay-race.test")
	cmd := exec.Command("go", "test", "-c", "-vet=off", "-race", "-overlay", filepath.Join(nb.scratch, "overlay.json"), "-o", bin, "./internal/verifh")
	cmd.Dir = repoDir()
	cmd.Env = append(os.Environ(), "GOFLAGS=-mod=mod", "GOPROXY=off", "GOSUMDB=off", "GOTOOLCHAIN=local")
	if out, err := cmd.CombinedOutput(); err != nil {
		return fmt.Errorf("native race build failed: %v\n%s", err, out)
	}
	nb.raceBin = bin
	return nil
}

func (nb *nativeBuild) cleanup() {
	if nb.scratch != "" {
		os.RemoveAll(nb.scratch)
	}
}

// run executes the replay file once.
func (nb *nativeBuild) run(path string, timeout time.Duration) *NativeResult {
	res := &NativeResult{Tries: 1}
	ctx, cancel := context.WithTimeout(context.Background(), timeout)
	defer cancel()
	bin := nb.bin
	if nb.useRace && nb.raceBin != "" {
		bin = nb.raceBin
	}
	cmd := exec.CommandContext(ctx, bin, "-test.run", "^TestReplay$", "-test.count=1")
	cmd.Dir = nb.scratch
	cmd.Env = append(os.Environ(), "VERIF_REPLAY="+path)
	var buf bytes.Buffer
	cmd.Stdout = &buf
	cmd.Stderr = &buf
	err := cmd.Run()
	if ctx.Err() == context.DeadlineExceeded {
		res.TimedOut = true
	}
	if ee, ok := err.(*exec.ExitError); ok {
		res.Exit = ee.ExitCode()
	}
	done := false
	for _, line := range strings.Split(buf.String(), "\n") {
		switch {
		case strings.HasPrefix(line, "VERIF-ASSERT-FAILED site="):
			res.Failed = append(res.Failed, strings.TrimPrefix(line, "VERIF-ASSERT-FAILED site="))
		case strings.HasPrefix(line, "VERIF-PANIC "):
			res.Panic = strings.TrimPrefix(line, "VERIF-PANIC ")
		case strings.HasPrefix(line, "VERIF-INVALID "):
			res.Invalid = strings.TrimPrefix(line, "VERIF-INVALID ")
		case strings.HasPrefix(line, "VERIF-OBS "):
			res.Obs = append(res.Obs, strings.TrimPrefix(line, "VERIF-OBS "))
		case line == "VERIF-DONE":
			done = true
		}
	}
	out := buf.String()
	if len(out) > 3000 {
		out = out[:3000]
	}
	res.Output = out
	if !done && res.Panic == "" && !res.TimedOut {
		res.Panic = "" // process ended without finishing: exit event
		if res.Exit == 0 {
			res.Exit = -1
		}
	}
	return res
}

// confirm replays a violation natively; reproduced iff the native run fails in the same way.
func (nb *nativeBuild) confirm(rf *ReplayFile, path string, tries int) *NativeResult {
	var last *NativeResult
	if rf.Kind == "race" && !nb.race {
		if err := nb.buildRace(); err == nil {
			nb.useRace = true
			defer func() { nb.useRace = false }()
		}
	}
	for i := 1; i <= tries; i++ {
		r := nb.run(path, 60*time.Second)
		r.Tries = i
		last = r
		switch rf.Kind {
		case "assert", "write":
			for _, s := range r.Failed {
				if s == rf.Site {
					r.Reproduced = true
				}
			}
			if strings.HasSuffix(rf.Site, ".noexit") && r.Panic == "" && !r.TimedOut && r.Exit != 0 && !strings.Contains(r.Output, "VERIF-DONE") {
				r.Reproduced = true // the process really exited
			}
		case "panic":
			r.Reproduced = r.Panic != ""
		case "exit":
			r.Reproduced = r.Panic == "" && !r.TimedOut && r.Exit != 0 && !strings.Contains(r.Output, "VERIF-DONE")
		case "unwind":
			// does not terminate within the time limit, or recursed until the runtime gave up (fatal, unrecoverable)
			r.Reproduced = r.TimedOut || strings.Contains(r.Output, "stack overflow") || strings.Contains(r.Output, "goroutine stack exceeds")
		case "race":
			r.Reproduced = strings.Contains(r.Output, "DATA RACE") || strings.Contains(r.Output, "fatal error: concurrent map") || len(r.Failed) > 0
		}
		if r.Invalid != "" && !r.Reproduced {
			break // the recorded values do not drive the native run along the same route
		}
		if r.Reproduced {
			break
		}
	}
	return last
}
