package main

// propAssumptions lists, per property, the trusted base and the assumptions of the claim
// (copied into every evidence file).
func propAssumptions(prop string) []string {
	common := []string{
		"bounded claim: holds for every input inside the bounds recorded under coverage.harnesses[*].bounds; nothing is claimed outside them",
		"engine: own symbolic interpreter over go/ssa (x/tools v0.29.0) of /repo's current working tree; pointers concrete, strings = SMT String (unconstrained alphabet), integers = SMT Int within the ranges the harness states",
		"solvers: cvc5 1.0 decides every branch feasibility query; every property query is sent to cvc5 and z3 4.8.12; unknown on feasibility keeps the branch, unknown on a property is reported as inconclusive",
		"stubs (trusted, validated by the concrete differential self-test against the native build): fmt.Sprintf/Errorf, sort.Strings/Ints, slices.Clone/Sort, maps.Clone, strings.*, strconv.Atoi/Itoa, logrus, context, protoreflect Range/List/Map/String, sha256 as an injective uninterpreted function",
		"counterexamples are reported only after the recorded values reproduce the failure against the natively compiled /repo (go test -c -overlay)",
	}
	if a, ok := extraAssumptions[prop]; ok {
		return append(common, a...)
	}
	return common
}

var extraAssumptions = map[string][]string{}
