package main

import (
	"fmt"
	"strconv"
	"strings"
)

// Path facts: an equality-substitution layer in front of the solver.
//
//   - rep:   union-find of variables whose equality to another variable or a constant is on the path;
//   - known: truth value of canonical atoms already on the path;
//   - model: a candidate assignment. A feasibility question is answered "feasible" without the solver only
//     when a candidate assignment has been *verified* by evaluating every path-condition term and the
//     alternative under it (a verified model is a proof of satisfiability, whoever produced it).
//
// "Infeasible by rewriting" (the alternative, or a path-condition term, rewrites to false under the
// equalities on the path) is audited against cvc5 on a sample (cfg.AuditEvery); a mismatch is a machinery error.

func (ex *Exec) find(t *Term) *Term {
	for {
		r, ok := ex.rep[t]
		if !ok {
			return t
		}
		t = r
	}
}

// subst rewrites t with every variable replaced by its representative.
func (ex *Exec) subst(t *Term) *Term {
	if len(ex.rep) == 0 || len(t.vs) == 0 {
		return t
	}
	hit := false
	for _, v := range t.vs {
		if _, ok := ex.rep[v]; ok {
			hit = true
			break
		}
	}
	if !hit {
		return t
	}
	if c, ok := ex.substMemo[t]; ok {
		return c
	}
	var r *Term
	if t.Op == "var" {
		r = ex.find(t)
	} else {
		as := make([]*Term, len(t.Args))
		for i, a := range t.Args {
			as[i] = ex.subst(a)
		}
		r = rebuild(t, as)
	}
	ex.substMemo[t] = r
	return r
}

// rebuild re-applies the smart constructor of t to new arguments.
func rebuild(t *Term, as []*Term) *Term {
	switch t.Op {
	case "not":
		return mkNot(as[0])
	case "and":
		return mkAnd(as...)
	case "=":
		return mkEq(as[0], as[1])
	case "ite":
		return mkIte(as[0], as[1], as[2])
	case "str.++":
		return mkConcat(as...)
	case "str.<":
		return mkStrLt(as[0], as[1])
	case "str.len":
		return mkStrLen(as[0])
	case "str.prefixof":
		return mkPrefixOf(as[0], as[1])
	case "str.suffixof":
		return mkSuffixOf(as[0], as[1])
	case "str.contains":
		return mkContains(as[0], as[1])
	case "<", "<=":
		return mkIntCmp(t.Op, as[0], as[1])
	case "+", "-", "*", "div", "mod":
		return mkArith(t.Op, as[0], as[1])
	case "str.from_int":
		if as[0].Op == "ci" && as[0].I >= 0 {
			return mkStr(fmt.Sprint(as[0].I))
		}
	case "str.to_int":
		if as[0].Op == "cs" {
			return mkInt(smtToInt(as[0].S))
		}
	case "str.to_lower":
		if as[0].Op == "cs" {
			return mkStr(asciiLower(as[0].S))
		}
	case "str.to_upper":
		if as[0].Op == "cs" {
			return mkStr(asciiUpper(as[0].S))
		}
	case "str.in_re":
		if as[0].Op == "cs" && as[1].Op == "raw" && as[1].Name == "(re.+ (re.range \"a\" \"z\"))" {
			if as[0].S == "" {
				return tFalse
			}
			for _, c := range as[0].S {
				if c < 'a' || c > 'z' {
					return tFalse
				}
			}
			return tTrue
		}
	case "str.replace_all":
		if as[0].Op == "cs" && as[1].Op == "cs" && as[2].Op == "cs" && as[1].S != "" {
			return mkStr(strings.ReplaceAll(as[0].S, as[1].S, as[2].S))
		}
	case "uf":
		return mkUF(t.Name, t.Sort, as...)
	}
	return intern(&Term{Op: t.Op, Args: as, Sort: t.Sort, Name: t.Name})
}

func smtToInt(s string) int64 {
	if s == "" {
		return -1
	}
	for _, c := range s {
		if c < '0' || c > '9' {
			return -1
		}
	}
	v, err := strconv.ParseInt(s, 10, 64)
	if err != nil {
		return -1
	}
	return v
}

// canon = substitute representatives, then apply known atom values.
func (ex *Exec) canon(t *Term) *Term {
	return ex.simpKnown(ex.subst(t))
}

// plainRe is the regular expression behind verifrt.StrPlain: non-empty words of lower-case letters.
const plainRe = "(re.+ (re.range \"a\" \"z\"))"

// lettersOnly: every character t can contain is a lower-case letter or comes from one of its constant atoms.
// cannotContain: sub has a character that is no letter and occurs in no constant atom of t.
func (ex *Exec) cannotContain(t *Term, sub string) bool {
	if sub == "" {
		return false
	}
	consts := ""
	for _, a := range catAtoms(t) {
		switch {
		case a.Op == "cs":
			consts += a.S
		case a.Op == "var" && ex.plainVars[a]:
		case a.Op == "uf" && a.Name == "H": // 64 hexadecimal digits
			consts += "0123456789abcdef"
		default:
			return false
		}
	}
	for _, c := range sub {
		if (c < 'a' || c > 'z') && !strings.ContainsRune(consts, c) {
			return true
		}
	}
	return false
}

func (ex *Exec) simpKnown(t *Term) *Term {
	if v, ok := ex.known[t]; ok {
		return mkBool(v)
	}
	if len(ex.plainVars) > 0 {
		switch t.Op {
		case "=":
			if t.Args[0].Sort == SStr {
				if r := ex.splitPlainEq(t.Args[0], t.Args[1]); r != nil {
					return ex.simpKnown(r)
				}
			}
		case "str.<":
			// x ++ c < y ++ c for plain words x, y and a constant c whose first character sorts before every letter:
			// the order is the order of x and y (a proper prefix sorts first either way)
			aa, ba := catAtoms(t.Args[0]), catAtoms(t.Args[1])
			if len(aa) == 2 && len(ba) == 2 && aa[1] == ba[1] && aa[1].Op == "cs" && aa[1].S != "" && aa[1].S[0] < 'a' &&
				aa[0].Op == "var" && ba[0].Op == "var" && ex.plainVars[aa[0]] && ex.plainVars[ba[0]] {
				return mkStrLt(aa[0], ba[0])
			}
		case "str.contains":
			if t.Args[1].Op == "cs" && ex.cannotContain(t.Args[0], t.Args[1].S) {
				return tFalse
			}
		case "str.prefixof", "str.suffixof":
			if t.Args[0].Op == "cs" && ex.cannotContain(t.Args[1], t.Args[0].S) {
				return tFalse
			}
			// a one-character prefix / suffix test against a term whose end is a plain variable
			if t.Args[0].Op == "cs" && len(t.Args[0].S) == 1 {
				at := catAtoms(t.Args[1])
				end := at[0]
				if t.Op == "str.suffixof" {
					end = at[len(at)-1]
				}
				c := t.Args[0].S[0]
				if end.Op == "var" && ex.plainVars[end] && (c < 'a' || c > 'z') {
					return tFalse
				}
				if end.Op == "cs" && end.S != "" {
					if t.Op == "str.prefixof" {
						return mkBool(end.S[0] == c)
					}
					return mkBool(end.S[len(end.S)-1] == c)
				}
			}
		}
	}
	switch t.Op {
	case "not":
		return mkNot(ex.simpKnown(t.Args[0]))
	case "and":
		as := make([]*Term, len(t.Args))
		for i, a := range t.Args {
			as[i] = ex.simpKnown(a)
		}
		return mkAnd(as...)
	}
	return t
}

// addFact records the canonical form c of a new path-condition term. Returns false on contradiction.
func (ex *Exec) addFact(c *Term) bool {
	switch {
	case c == tTrue:
		return true
	case c == tFalse:
		return false
	case c.Op == "and":
		for _, a := range c.Args {
			if !ex.addFact(ex.canon(a)) {
				return false
			}
		}
		return true
	case c.Op == "=":
		a, b := c.Args[0], c.Args[1]
		if a.Sort != SBool {
			if a.Op == "var" && (b.Op == "var" || b.isConst()) {
				ex.union(a, b)
				return true
			}
			if b.Op == "var" && (a.Op == "var" || a.isConst()) {
				ex.union(b, a)
				return true
			}
		}
	}
	if v, ok := ex.known[c]; ok {
		return v
	}
	if c.Op == "str.in_re" && c.Args[0].Op == "var" && c.Args[1].Op == "raw" && c.Args[1].Name == plainRe {
		if ex.plainVars == nil {
			ex.plainVars = map[*Term]bool{}
		}
		ex.plainVars[c.Args[0]] = true
	}
	ex.known[c] = true
	ex.known[mkNot(c)] = false
	return true
}

func (ex *Exec) union(v, to *Term) {
	ex.rep[v] = to
	ex.substMemo = map[*Term]*Term{}
	ex.dirty = true
}

// recanon rebuilds the fact base from the path condition after a new equality. Returns false on contradiction.
func (ex *Exec) recanon() bool {
	for iter := 0; ex.dirty && iter < 50; iter++ {
		ex.dirty = false
		ex.known = map[*Term]bool{}
		for _, p := range ex.pc {
			if !ex.addFact(ex.canon(p)) {
				return false
			}
		}
	}
	return true
}

// ---------------------------------------------------------------- evaluation under an assignment

type assignment map[*Term]*Term // var -> constant term

func evalTerm(t *Term, m assignment) (*Term, bool) {
	switch t.Op {
	case "cs", "ci", "cb", "raw":
		return t, true
	case "var":
		c, ok := m[t]
		return c, ok
	case "uf":
		return nil, false
	}
	as := make([]*Term, len(t.Args))
	for i, a := range t.Args {
		c, ok := evalTerm(a, m)
		if !ok {
			return nil, false
		}
		as[i] = c
	}
	r := rebuild(t, as)
	if r.isConst() {
		return r, true
	}
	// operators whose smart constructor does not fold constants
	switch t.Op {
	case "str.indexof", "str.substr", "str.at", "str.in_re":
		return nil, false
	}
	return nil, false
}

// holds: t evaluates to true under m.
func holds(t *Term, m assignment) bool {
	c, ok := evalTerm(t, m)
	return ok && c == tTrue
}

// candidate builds an assignment from the union-find classes (plus hypothetical merges): the class
// constant, or a fresh value distinct from every other class.
func (ex *Exec) candidate(extra *Term, merges [][2]*Term) assignment {
	m := assignment{}
	fresh := 0
	local := map[*Term]*Term{}
	var find func(t *Term) *Term
	find = func(t *Term) *Term {
		t = ex.find(t)
		for {
			r, ok := local[t]
			if !ok {
				return t
			}
			t = ex.find(r)
		}
	}
	merge := func(a, b *Term) bool {
		a, b = find(a), find(b)
		if a == b {
			return true
		}
		if a.isConst() && b.isConst() {
			return false
		}
		if a.isConst() {
			a, b = b, a
		}
		if a.Op != "var" {
			return false
		}
		local[a] = b
		return true
	}
	if extra != nil {
		lits, _ := eqLiterals(extra, nil)
		for _, l := range lits {
			if !merge(l[0], l[1]) {
				return nil
			}
		}
	}
	for _, mg := range merges {
		if !merge(mg[0], mg[1]) {
			return nil
		}
	}
	classVal := map[*Term]*Term{}
	assign := func(v *Term) {
		r := find(v)
		if r.isConst() {
			m[v] = r
			return
		}
		if r.Op != "var" {
			return
		}
		if c, ok := classVal[r]; ok {
			m[v] = c
			return
		}
		fresh++
		var c *Term
		switch r.Sort {
		case SStr:
			c = mkStr(fmt.Sprintf("~%d~", fresh))
		case SInt:
			c = mkInt(int64(fresh))
		default:
			c = tFalse
		}
		classVal[r] = c
		m[v] = c
	}
	for _, p := range ex.pc {
		for _, v := range p.vs {
			if _, ok := m[v]; !ok {
				assign(v)
			}
		}
	}
	if extra != nil {
		for _, v := range extra.vs {
			if _, ok := m[v]; !ok {
				assign(v)
			}
		}
	}
	return m
}

// disjuncts returns the alternatives of a disjunction-shaped term (not (and (not a) (not b) ..)), or nil.
func disjuncts(t *Term) []*Term {
	if t.Op == "not" && t.Args[0].Op == "and" {
		var ds []*Term
		for _, a := range t.Args[0].Args {
			ds = append(ds, mkNot(a))
		}
		return ds
	}
	return nil
}

// eqLiterals collects the variable equalities a conjunction-shaped term asks for.
func eqLiterals(t *Term, out [][2]*Term) ([][2]*Term, bool) {
	switch {
	case t.Op == "=" && t.Args[0].Sort != SBool:
		a, b := t.Args[0], t.Args[1]
		// c = to_upper(x) / to_lower(x) with c already in that case: x := c is a candidate
		unwrap := func(x, c *Term) *Term {
			if c.Op == "cs" && len(x.Args) == 1 && x.Args[0].Op == "var" {
				if (x.Op == "str.to_upper" && strings.ToUpper(c.S) == c.S) || (x.Op == "str.to_lower" && strings.ToLower(c.S) == c.S) {
					return x.Args[0]
				}
			}
			return x
		}
		a, b = unwrap(a, b), unwrap(b, a)
		if (a.Op == "var" || a.isConst()) && (b.Op == "var" || b.isConst()) {
			return append(out, [2]*Term{a, b}), true
		}
		return out, false
	case t.Op == "and":
		ok := true
		for _, a := range t.Args {
			var k bool
			out, k = eqLiterals(a, out)
			ok = ok && k
		}
		return out, ok
	}
	return out, true // other literals may already hold; verification decides
}

// searchModel looks for a verified assignment of pc ∧ extra: union-find candidate, repaired by choosing
// disjuncts of failing disjunctions (depth-first, small budget).
func (ex *Exec) searchModel(extra *Term) assignment {
	budget := 120
	var goals []*Term
	if extra != nil {
		if extra.Op == "and" {
			goals = append(goals, extra.Args...)
		} else {
			goals = append(goals, extra)
		}
	}
	var rec func(merges [][2]*Term, depth int) assignment
	rec = func(merges [][2]*Term, depth int) assignment {
		if budget <= 0 {
			return nil
		}
		budget--
		m := ex.candidate(extra, merges)
		if m == nil {
			return nil
		}
		var failing *Term
		for _, g := range goals {
			if !holds(g, m) {
				failing = g
				break
			}
		}
		if failing == nil {
			for _, p := range ex.pc {
				if !holds(p, m) {
					failing = p
					break
				}
			}
		}
		if failing == nil {
			return m
		}
		if depth == 0 {
			return nil
		}
		ds := disjuncts(failing)
		for _, d := range ds {
			lits, _ := eqLiterals(d, nil)
			if len(lits) == 0 || ex.canon(d) == tFalse {
				continue
			}
			if r := rec(append(append([][2]*Term{}, merges...), lits...), depth-1); r != nil {
				return r
			}
		}
		return nil
	}
	return rec(nil, 6)
}

// verified: every path-condition term and extra evaluate to true under m.
func (ex *Exec) verified(m assignment, extra *Term) bool {
	if extra != nil && !holds(extra, m) {
		return false
	}
	for _, p := range ex.pc {
		if !holds(p, m) {
			return false
		}
	}
	return true
}

// refuted: adding alt's literals to the facts makes some path-condition term rewrite to false
// (one step of unit propagation). Sound: pc ∧ alt then implies false.
func (ex *Exec) refuted(alt *Term) bool {
	c := ex.canon(alt)
	var lits []*Term
	if c.Op == "and" {
		lits = c.Args
	} else {
		lits = []*Term{c}
	}
	var addedKnown []*Term
	var addedRep []*Term
	for _, l := range lits {
		if l.Op == "=" && l.Args[0].Sort != SBool {
			a, b := ex.find(l.Args[0]), ex.find(l.Args[1])
			if a.Op == "var" && (b.Op == "var" || b.isConst()) && a != b {
				ex.rep[a] = b
				addedRep = append(addedRep, a)
				continue
			}
			if b.Op == "var" && a.isConst() {
				ex.rep[b] = a
				addedRep = append(addedRep, b)
				continue
			}
		}
		if _, ok := ex.known[l]; !ok {
			ex.known[l] = true
			addedKnown = append(addedKnown, l)
			n := mkNot(l)
			if _, ok := ex.known[n]; !ok {
				ex.known[n] = false
				addedKnown = append(addedKnown, n)
			}
		}
	}
	saveMemo := ex.substMemo
	if len(addedRep) > 0 {
		ex.substMemo = map[*Term]*Term{}
	}
	res := false
	for _, p := range ex.pc {
		if ex.canon(p) == tFalse {
			res = true
			break
		}
	}
	for _, k := range addedKnown {
		delete(ex.known, k)
	}
	for _, v := range addedRep {
		delete(ex.rep, v)
	}
	ex.substMemo = saveMemo
	return res
}

func asciiLower(s string) string {
	b := []byte(s)
	for i, c := range b {
		if c >= 'A' && c <= 'Z' {
			b[i] = c + 32
		}
	}
	return string(b)
}

func asciiUpper(s string) string {
	b := []byte(s)
	for i, c := range b {
		if c >= 'a' && c <= 'z' {
			b[i] = c - 32
		}
	}
	return string(b)
}

// ---------------------------------------------------------------- positions inside concatenations

// lenSum is the canonical term for the total length of atoms.
func lenSum(atoms []*Term) *Term {
	var t *Term = mkInt(0)
	c := int64(0)
	for _, a := range atoms {
		if a.Op == "cs" {
			c += int64(len(a.S))
			continue
		}
		if t.Op == "ci" && t.I == 0 {
			t = mkStrLen(a)
		} else {
			t = mkArith("+", t, mkStrLen(a))
		}
	}
	return mkArith("+", t, mkInt(c))
}

// splitAt cuts the concatenation t at position idx when idx is syntactically an atom boundary plus an offset into a
// constant atom. ok=false when the position cannot be located syntactically.
func splitAt(t *Term, idx *Term) (left, right *Term, ok bool) {
	atoms := catAtoms(t)
	for k := 0; k <= len(atoms); k++ {
		base := lenSum(atoms[:k])
		if base == idx {
			return mkConcat(atoms[:k]...), mkConcat(atoms[k:]...), true
		}
		if k < len(atoms) && atoms[k].Op == "cs" {
			for o := 1; o < len(atoms[k].S); o++ {
				// offset o into the constant atom k: the constant's first o bytes belong to the left part
				l := append(append([]*Term{}, atoms[:k]...), mkStr(atoms[k].S[:o]))
				if lenSum(l) == idx {
					r := append([]*Term{mkStr(atoms[k].S[o:])}, atoms[k+1:]...)
					return mkConcat(l...), mkConcat(r...), true
				}
			}
		}
	}
	return nil, nil, false
}

// trimmedEnds: t can neither start nor end with a character of cut (plain variables are letters only).
func (ex *Exec) trimmedEnds(t *Term, cut string, left, right bool) bool {
	atoms := catAtoms(t)
	if len(atoms) == 0 {
		return true
	}
	okEnd := func(a *Term, first bool) bool {
		switch {
		case a.Op == "cs":
			if a.S == "" {
				return false
			}
			c := a.S[len(a.S)-1]
			if first {
				c = a.S[0]
			}
			return !strings.ContainsRune(cut, rune(c))
		case a.Op == "var" && ex.plainVars[a]:
			for _, c := range cut {
				if c >= 'a' && c <= 'z' {
					return false
				}
			}
			return true
		}
		return false
	}
	if left && !okEnd(atoms[0], true) {
		return false
	}
	if right && !okEnd(atoms[len(atoms)-1], false) {
		return false
	}
	return true
}

// letterPrefix splits atoms at the first character that is no lower-case letter: everything before it is made of plain
// variables and letters. found=false with ok=true means the whole term consists of letters.
func (ex *Exec) letterPrefix(atoms []*Term) (prefix []*Term, delim byte, rest []*Term, found, ok bool) {
	for i, a := range atoms {
		switch {
		case a.Op == "var" && ex.plainVars[a]:
			prefix = append(prefix, a)
		case a.Op == "cs":
			k := -1
			for j := 0; j < len(a.S); j++ {
				if a.S[j] < 'a' || a.S[j] > 'z' {
					k = j
					break
				}
			}
			if k < 0 {
				prefix = append(prefix, a)
				continue
			}
			prefix = append(prefix, mkStr(a.S[:k]))
			rest = append([]*Term{mkStr(a.S[k+1:])}, atoms[i+1:]...)
			return prefix, a.S[k], rest, true, true
		default:
			return nil, 0, nil, false, false
		}
	}
	return prefix, 0, nil, false, true
}

// splitPlainEq rewrites an equation between concatenations of plain variables and constants by cutting both sides at
// their first non-letter character, which must be at the same position: P1 d R1 = P2 d' R2  <=>  P1 = P2, d = d', R1 = R2.
// nil = no progress.
func (ex *Exec) splitPlainEq(a, b *Term) *Term {
	// both sides start with the decimal text of an integer followed by a constant that starts with neither a digit
	// nor '-': the numbers end at the same place, so they are equal (Itoa is injective) and so are the remainders
	aa, ba := catAtoms(a), catAtoms(b)
	if len(aa) >= 2 && len(ba) >= 2 {
		if i, ok := itoaArg(aa[0]); ok {
			if j, ok := itoaArg(ba[0]); ok && nonNumericStart(aa[1]) && nonNumericStart(ba[1]) {
				return mkAnd(mkEq(i, j), mkEq(mkConcat(aa[1:]...), mkConcat(ba[1:]...)))
			}
		}
	}
	pa, da, ra, fa, oka := ex.letterPrefix(catAtoms(a))
	pb, db, rb, fb, okb := ex.letterPrefix(catAtoms(b))
	if !oka || !okb {
		return nil
	}
	switch {
	case fa && fb:
		if da != db {
			return tFalse
		}
		return mkAnd(mkEq(mkConcat(pa...), mkConcat(pb...)), mkEq(mkConcat(ra...), mkConcat(rb...)))
	case fa != fb:
		return tFalse // one side has a non-letter character, the other consists of letters
	}
	return nil
}

// itoaArg recognises the term the strconv.Itoa / %d stubs build for an integer i and returns i.
func itoaArg(t *Term) (*Term, bool) {
	if t.Op == "str.from_int" {
		return t.Args[0], true
	}
	if t.Op == "ite" && len(t.Args) == 3 && t.Args[2].Op == "str.from_int" {
		i := t.Args[2].Args[0]
		c := t.Args[0]
		if c.Op == "<" && c.Args[0] == i && c.Args[1].Op == "ci" && c.Args[1].I == 0 {
			return i, true
		}
	}
	return nil, false
}

func nonNumericStart(t *Term) bool {
	return t.Op == "cs" && t.S != "" && t.S[0] != '-' && (t.S[0] < '0' || t.S[0] > '9')
}
