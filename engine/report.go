package main

import (
	"math/rand"
	"golang.org/x/tools/go/ssa"
	"encoding/json"
	"fmt"
	"os"
	"path/filepath"
	"sort"
	"strings"
	"time"
)

type report struct {
	cfg      Config
	sh       *Shared
	root     string
	nb       *nativeBuild
	loadT    time.Duration
	exploreT time.Duration
	wall     time.Duration
	head     string

	newViol      []*ReplayFile
	newViolPaths []string
	knownHit     map[string]string // "site|region" -> replay path
	spurious     int
	spuriousInfo []string
	inconclusive []string
	machinery    []string
	replays      int
	selfRuns     int
	selfMatch    int
	selfSkipped  int
	selfSkipWhy  map[string]int
	selfMismatch []string
}

func (r *report) replayDir() string {
	d := filepath.Join(r.root, "replays", r.cfg.Prop)
	os.MkdirAll(d, 0o755)
	return d
}

func (r *report) processViolations() {
	r.knownHit = map[string]string{}
	type group struct {
		key  string
		vs   []Violation
		sigs map[string]int
	}
	groups := map[string]*group{}
	var order []string
	for _, h := range r.sh.hs {
		for _, v := range h.St.Violations {
			k := v.Harness + "|" + v.Site + "|" + v.Kind + "|" + v.Region
			g, ok := groups[k]
			if !ok {
				g = &group{key: k}
				groups[k] = g
				order = append(order, k)
			}
			// candidates for native confirmation: a few per distinct decision vector, so that a spurious model on one
			// path does not hide a genuine counterexample on another
			sig := ""
			for _, rv := range v.Values {
				if rv.Kind == "choice" {
					sig += fmt.Sprintf("%s=%d,", rv.Name, rv.Int)
				}
			}
			if g.sigs == nil {
				g.sigs = map[string]int{}
			}
			if len(g.vs) < 16 && g.sigs[sig] < 2 {
				g.sigs[sig]++
				g.vs = append(g.vs, v)
			}
		}
	}
	sort.Strings(order)
	for _, k := range order {
		g := groups[k]
		v0 := g.vs[0]
		switch v0.Kind {
		case "inconclusive":
			r.inconclusive = append(r.inconclusive, fmt.Sprintf("%s site=%s: solver answered unknown", v0.Harness, v0.Site))
			continue
		case "disagreement":
			r.machinery = append(r.machinery, fmt.Sprintf("%s site=%s: solver disagreement (%s)", v0.Harness, v0.Site, v0.Msg))
			continue
		}
		if err := r.nb.build(); err != nil {
			r.machinery = append(r.machinery, err.Error())
			return
		}
		reproduced := false
		for i, v := range g.vs {
			tier := "quick" // the bounds the harness ran with: only the deep pass of the thorough tier uses the larger ones
			if strings.HasSuffix(v.Harness, "@deep") {
				tier = "thorough"
			}
			rf := &ReplayFile{Property: r.cfg.Prop, Harness: strings.TrimSuffix(v.Harness, "@deep"), Site: v.Site, Kind: v.Kind, Msg: v.Msg, Region: v.Region, Tier: tier,
				RepoHead: r.head, Values: v.Values, Trace: v.Trace, Model: v.Model, SMT: v.SMT}
			name := sanitize(fmt.Sprintf("%s__%s__%s_%d", v.Harness, v.Site, v.Region, i)) + ".json"
			path := filepath.Join(r.replayDir(), name)
			b, _ := json.MarshalIndent(rf, "", " ")
			os.WriteFile(path, b, 0o644)
			tries := 25
			if v.Kind == "race" {
				tries = 3
			}
			nr := r.nb.confirm(rf, path, tries)
			r.replays++
			rf.Native = nr
			b, _ = json.MarshalIndent(rf, "", " ")
			os.WriteFile(path, b, 0o644)
			if nr.Reproduced {
				reproduced = true
				if v.Region != "" {
					r.knownHit[v.Site+"|"+v.Region] = path
				} else {
					r.newViol = append(r.newViol, rf)
					r.newViolPaths = append(r.newViolPaths, path)
				}
				break
			}
			r.spuriousInfo = append(r.spuriousInfo, fmt.Sprintf("%s site=%s kind=%s not reproduced natively (invalid=%q failed=%v) replay=%s", v.Harness, v.Site, v.Kind, nr.Invalid, nr.Failed, path))
		}
		if !reproduced {
			r.spurious++
		}
	}
}

// selftest: translator validation. Each harness is run with all nondets fixed to seeded concrete values both in
// the engine (interpreting the SSA of the real code through the same stubs) and natively; the observation
// traces (assertion outcomes, Observe values, panics) must agree.
func (r *report) selftest(ld *loaded) {
	n := 6
	if r.cfg.Tier == "thorough" {
		n = 30
	}
	ccfg := r.cfg
	ccfg.Concrete = true
	ccfg.Workers = 1
	csh := &Shared{cfg: ccfg, prog: ld.prog, hpkg: ld.hpkg, enumTab: ld.enumTab, known: &KnownFindings{}, rngs: nil}
	csh.jsonUTE, csh.jType, csh.streamType = ld.lookupTypes()
	csh.cond = nil
	ex := &Exec{sh: csh, prog: ld.prog, id: 0, posCache: map[ssa.Instruction]string{}}
	csh.rngs = map[*Exec]*rand.Rand{}
	if err := r.nb.build(); err != nil {
		r.machinery = append(r.machinery, err.Error())
		return
	}
	dir := r.nb.scratch
	for _, h := range r.sh.hs {
		if h.Deep && h.St != nil && h.St.NoDeeper {
			continue
		}
		hh := &Harness{Name: h.Name, Prop: h.Prop, Fn: h.Fn, Deep: h.Deep, St: newStats()}
		selfTier := "quick"
		if h.Deep {
			selfTier = "thorough"
		}
		for i := 0; i < n; i++ {
			reason := ex.runPath(hh, nil)
			for try := 0; try < 60 && (reason == "assume false" || reason == "assume infeasible" || reason == "skipped"); try++ {
				reason = ex.runPath(hh, nil) // resample: the random values did not satisfy the harness's assumptions
			}
			if reason != "" && reason != "panic" && reason != "exit" {
				r.selfSkipped++
				if r.selfSkipWhy == nil {
					r.selfSkipWhy = map[string]int{}
				}
				r.selfSkipWhy[reason]++
				continue
			}
			rf := &ReplayFile{Property: r.cfg.Prop, Harness: strings.TrimSuffix(h.Name, "@deep"), Kind: "concrete", Tier: selfTier, Values: ex.replayValues(ex.concreteModel())}
			path := filepath.Join(dir, fmt.Sprintf("self_%s_%d.json", h.Name, i))
			b, _ := json.Marshal(rf)
			os.WriteFile(path, b, 0o644)
			nr := r.nb.run(path, 60*time.Second)
			r.selfRuns++
			want := strings.Join(ex.mon.obs, "\n")
			var gotL []string
			gotL = append(gotL, nr.Obs...)
			if nr.Panic != "" {
				gotL = append(gotL, "panic")
			}
			got := strings.Join(gotL, "\n")
			wantCmp := want
			if reason == "panic" {
				// engine observation ends with "panic <site>"; compare only the kind
				ls := strings.Split(want, "\n")
				ls[len(ls)-1] = "panic"
				wantCmp = strings.Join(ls, "\n")
			}
			if got == wantCmp && nr.Invalid == "" {
				r.selfMatch++
			} else {
				keep := filepath.Join(r.replayDir(), fmt.Sprintf("selftest_%s_%d.json", h.Name, i))
				os.WriteFile(keep, b, 0o644)
				if len(r.selfMismatch) < 10 {
					r.selfMismatch = append(r.selfMismatch, fmt.Sprintf("%s sample %d: engine=%q native=%q invalid=%q replay=%s", h.Name, i, wantCmp, got, nr.Invalid, keep))
				}
			}
		}
	}
}

func (ex *Exec) concreteModel() map[string]string { return nil }

type evidence struct {
	PropertyID  string         `json:"property_id"`
	Tier        string         `json:"tier"`
	Seed        int64          `json:"seed"`
	Level       string         `json:"level"`
	Coverage    map[string]any `json:"coverage"`
	Assumptions []string       `json:"assumptions"`
	WallS       float64        `json:"wall_s"`
	Violations  int            `json:"violations"`
}

func (r *report) finish() int {
	sh := r.sh
	states, transitions, evals, distinct := 0, 0, 0, 0
	complete := true
	var harnessInfo []map[string]any
	funcs := map[string]int{}
	stubs := map[string]int{}
	unsupported := map[string]int{}
	unmodelled := map[string]int{} // paths cut at an operation the engine does not model on that symbolic shape
	unwind := 0
	rewrites, audits, byModel, folded := 0, 0, 0, 0
	auditUnknown := 0
	monChecks := 0
	silent := 0
	var auditFail []string
	vacuous := []string{}
	var capped []string
	var samples []any
	paths := 0
	for _, h := range sh.hs {
		st := h.St
		paths += st.Paths
		transitions += st.Transitions
		states += st.Transitions + 1
		evals += st.Discharged
		distinct += st.SymPaths
		if st.Capped || st.Pending > 0 {
			complete = false
			capped = append(capped, fmt.Sprintf("%s (%d paths explored)", h.Name, st.Paths))
		}
		for k, n := range st.Funcs {
			funcs[k] += n
		}
		for k, n := range st.Stubs {
			stubs[k] += n
		}
		for k, n := range st.Unsupported {
			unsupported[k] += n
		}
		rewrites += st.Rewrites
		audits += st.Audits
		auditUnknown += st.AuditUnknown
		byModel += st.ByModel
		folded += st.Folded
		monChecks += st.MonitorChecks
		silent += st.SilentWrites
		auditFail = append(auditFail, st.AuditFail...)
		for k, n := range st.Aborted {
			if strings.HasPrefix(k, "unwind") {
				unwind += n
			}
			if strings.HasPrefix(k, "unsupported") {
				unmodelled[h.Name+": "+k] += n
			}
		}
		skipped := st.Aborted["skipped"] > 0 && st.Completed == 0
		for s, n := range st.SiteReach {
			_ = n
			_ = s
		}
		if st.NoDeeper {
			continue // second pass not needed: the harness has no larger bound
		}
		if st.Completed == 0 && !skipped && !st.Capped {
			vacuous = append(vacuous, h.Name+": no path ran to completion")
		}
		hi := map[string]any{"harness": h.Name, "paths": st.Paths, "completed_paths": st.Completed, "aborted": st.Aborted, "site_reach": st.SiteReach,
			"site_symbolic": st.SiteSym, "assertions_discharged": st.Discharged, "single_solver": st.Single, "bounds": st.Bounds, "complete": !(st.Capped || st.Pending > 0), "ssa_instructions_executed": st.Steps, "wall_s": st.Wall.Seconds()}
		harnessInfo = append(harnessInfo, hi)
		if skipped {
			continue
		}
		for _, sp := range st.SamplePaths {
			if len(samples) < 6 {
				samples = append(samples, map[string]any{"harness": h.Name, "path": sp})
			}
		}
		if st.SampleSMT != "" && len(samples) < 8 {
			smt := st.SampleSMT
			if len(smt) > 4000 {
				smt = smt[:4000] + "\n; truncated"
			}
			samples = append(samples, map[string]any{"harness": h.Name, "discharged_query_smtlib2": smt})
		}
	}
	if len(samples) == 0 {
		samples = append(samples, "no symbolic path completed")
	}
	var fnames []string
	for k, n := range funcs {
		fnames = append(fnames, fmt.Sprintf("%s (%d calls)", k, n))
	}
	sort.Strings(fnames)
	var snames []string
	for k := range stubs {
		snames = append(snames, k)
	}
	sort.Strings(snames)

	// output lines
	code := 0
	for k, p := range r.knownHit {
		parts := strings.SplitN(k, "|", 2)
		what := ""
		if kf := sh.known.find(r.cfg.Prop, parts[0], parts[1]); kf != nil {
			what = kf.What
		}
		fmt.Printf("KNOWN-FINDING: property=%s site=%s region=%s %s (replay=%s)\n", r.cfg.Prop, parts[0], parts[1], what, p)
	}
	for i, rf := range r.newViol {
		fmt.Printf("VIOLATION property=%s replay=%s\n", r.cfg.Prop, r.newViolPaths[i])
		fmt.Printf("  harness=%s site=%s kind=%s %s\n", rf.Harness, rf.Site, rf.Kind, rf.Msg)
		code = 1
	}
	for _, s := range r.spuriousInfo {
		fmt.Println("SPURIOUS:", s)
	}
	for _, s := range r.inconclusive {
		fmt.Println("INCONCLUSIVE:", s)
	}
	if silent > 0 {
		fmt.Printf("NOTE: %d stores into operand memory always rewrite the value already there (no snapshot difference; a data race between concurrent callers)\n", silent)
	}
	if !complete {
		fmt.Println("INCOMPLETE: the path / time budget ended before the stated bound was exhausted for: " + strings.Join(capped, ", ") + " (the claim for these is what was explored, see evidence)")
	}
	for k, n := range unsupported {
		fmt.Printf("INCOMPLETE: %d paths ended at an unmodelled callee %s\n", n, k)
	}
	{
		var ks []string
		for k := range unmodelled {
			ks = append(ks, k)
		}
		sort.Strings(ks)
		for _, k := range ks {
			fmt.Printf("INCOMPLETE: %d paths cut short, nothing is claimed beyond the cut: %s\n", unmodelled[k], k)
		}
	}
	for _, s := range r.selfMismatch {
		fmt.Println("SELFTEST-MISMATCH:", s)
	}
	for _, s := range r.machinery {
		fmt.Println("ERROR:", s)
	}
	for i, s := range auditFail {
		if i < 10 {
			fmt.Println("ERROR audit:", s)
		}
	}
	if len(auditFail) > 0 {
		r.machinery = append(r.machinery, "rewriting audit failed")
	}
	for _, s := range vacuous {
		fmt.Println("ERROR vacuous:", s)
	}
	for _, s := range sh.errors {
		fmt.Println("ERROR solver:", s)
	}
	if code == 0 && (len(r.machinery) > 0 || len(vacuous) > 0 || len(sh.errors) > 0 || len(r.selfMismatch) > 0) {
		code = 2
	}

	ev := evidence{PropertyID: r.cfg.Prop, Tier: r.cfg.Tier, Seed: r.cfg.Seed, Level: "model_checking", WallS: r.wall.Seconds(), Violations: len(r.newViol)}
	ev.Coverage = map[string]any{
		"states":                        states,
		"transitions":                   transitions,
		"traces_validated_against_impl": r.selfMatch + r.replays,
		"samples":                       samples,
		"evaluations":                   evals + folded + monChecks,
		"monitored_stores_checked":      monChecks,
		"same_value_stores_into_operands": silent,
		"assertions_discharged_by_solver": evals,
		"assertions_folded_by_path_equalities": folded,
		"rewriting": map[string]any{"infeasible_by_rewriting": rewrites, "audited_with_cvc5": audits, "audit_mismatches": len(auditFail), "audits_where_both_solvers_gave_up": auditUnknown, "feasible_by_verified_model": byModel, "audit_every": r.cfg.AuditEvery},
		"distinct_nontrivial":           distinct,
		"rule":                          "a case is one complete feasible path of a harness through the real code's SSA (one equivalence class of inputs: same branch outcomes, same map-key matches, same iteration orders); evaluations = property assertions discharged unsat by the solver(s); a path is non-trivial when at least one of its property assertions still contained a symbolic variable when sent to the solver; paths are distinct by construction (distinct decision sequences)",
		"exhaustive":                    complete && len(unsupported) == 0 && len(unmodelled) == 0 && len(r.inconclusive) == 0,
		"paths":                         paths,
		"harnesses":                     harnessInfo,
		"functions_encoded":             fnames,
		"stubs_used":                    snames,
		"queries": map[string]any{"cvc5": map[string]int{"total": sh.Queries, "sat": sh.Sat, "unsat": sh.Unsat, "unknown": sh.Unknown},
			"z3": map[string]int{"total": sh.ZQueries, "sat": sh.ZSat, "unsat": sh.ZUnsat, "unknown": sh.ZUnknown}, "latency_histogram_ms_lt_5_20_100_500_2000_inf": sh.Hist, "solver_restarts": sh.Restarts},
		"solver_time_s":            (sh.Time + sh.ZTime).Seconds(),
		"slowest_query_s":          sh.Slowest.Seconds(),
		"load_ssa_s":               r.loadT.Seconds(),
		"explore_s":                r.exploreT.Seconds(),
		"unwind_failures":          unwind,
		"unsupported_paths":        unsupported,
		"paths_cut_at_unmodelled_operations": unmodelled,
		"spurious_counterexamples": r.spurious,
		"inconclusive_sites":       r.inconclusive,
		"native_replays":           r.replays,
		"selftest":                 map[string]any{"concrete_runs_compared": r.selfRuns, "agree": r.selfMatch, "skipped": r.selfSkipped, "skipped_reasons": r.selfSkipWhy, "mismatches": r.selfMismatch},
		"known_findings_reproduced": keysOf(r.knownHit),
		"repo_head":                r.head,
		"workers":                  r.cfg.Workers,
		"solver_timeout_ms":        r.cfg.TimeoutMs,
	}
	ev.Assumptions = propAssumptions(r.cfg.Prop)
	b, _ := json.MarshalIndent(ev, "", " ")
	os.MkdirAll(filepath.Join(r.root, "evidence"), 0o755)
	os.WriteFile(filepath.Join(r.root, "evidence", r.cfg.Prop+".json"), b, 0o644)

	if os.Getenv("GOSYM_DBG") != "" {
		fmt.Println("dbg", dbg)
	}
	fmt.Printf("property=%s tier=%s harnesses=%d paths=%d assertions_discharged=%d queries=%d+%d known_findings=%d violations=%d spurious=%d selftest=%d/%d wall=%.1fs exit=%d\n",
		r.cfg.Prop, r.cfg.Tier, len(sh.hs), paths, evals, sh.Queries, sh.ZQueries, len(r.knownHit), len(r.newViol), r.spurious, r.selfMatch, r.selfRuns, r.wall.Seconds(), code)
	return code
}

func keysOf(m map[string]string) []string {
	ks := []string{}
	for k := range m {
		ks = append(ks, k)
	}
	sort.Strings(ks)
	return ks
}

func init() {
	if os.Getenv("GOSYM_DBG") == "" {
		return
	}
	dbgFail = func(ex *Exec, t *Term) {
		m := ex.candidate(t, nil)
		fmt.Fprintln(os.Stderr, "---- candidate failed for", t.smt())
		if m == nil {
			fmt.Fprintln(os.Stderr, "   no candidate")
			return
		}
		if !holds(t, m) {
			c, ok := evalTerm(t, m)
			fmt.Fprintln(os.Stderr, "   alt itself fails", c, ok)
		}
		for _, p := range ex.pc {
			if !holds(p, m) {
				fmt.Fprintln(os.Stderr, "   pc fails:", p.smt())
			}
		}
	}
}
