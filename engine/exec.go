package main

import (
	"fmt"
	"os"
	"strings"

	"golang.org/x/tools/go/ssa"
)

// control-flow signals raised with panic()
type pathAbort struct{ reason string } // infeasible / assume false / unsupported / unwind
type goPanic struct {
	msg  string
	site string
}
type exitEvent struct{ site string } // logrus.Fatal / os.Exit

type nondetRec struct {
	Name string
	Kind string // "string" | "int" | "bool" | "choice"
	T    *Term  // symbolic variable (nil for concrete decisions)
	C    int64  // concrete value for Kind=="choice"
}

type Violation struct {
	Harness string
	Site    string
	Kind    string // assert | panic | exit | unwind | inconclusive | disagreement
	Msg     string
	Region  string // non-empty: inside a listed known-finding region
	Values  []ReplayValue
	Model   map[string]string
	Trace   []int32
	SMT     string
	Native  *NativeResult
}

type ReplayValue struct {
	Name  string `json:"name"`
	Kind  string `json:"kind"`
	Str   string `json:"str,omitempty"`
	Int   int64  `json:"int,omitempty"`
	Bool  bool   `json:"bool,omitempty"`
	Bytes []int  `json:"bytes,omitempty"` // raw bytes of Str when not valid UTF-8 / for exactness
}

// Exec is one worker: an interpreter with its own solver processes.
type Exec struct {
	sh       *Shared
	prog     *ssa.Program
	cvc      *Solver
	z3       *Solver
	id       int
	curH     *Harness
	inInit   int
	propQ    int
	posCache map[ssa.Instruction]string

	// per path
	globals     map[*ssa.Global]Ptr
	pkgInit     map[*ssa.Package]bool
	pc          []*Term
	known       map[*Term]bool
	syncedC     bool
	syncedZ     bool
	prefix      []int32
	pos         int
	trace       []int32
	nondets     []nondetRec
	nvars       int
	nobj        int
	steps       int
	depth       int
	regions     map[string]*Term
	bounds      map[string]int64
	mapOrder    int // 0 insertion, 1 all
	epoch       int
	hfacts      []*Term // instantiated axioms for uninterpreted functions (sha256)
	happs       []*Term
	rfcapps     []*Term
	mon         monitors
	newWork     []newItem
	rep         map[*Term]*Term
	substMemo   map[*Term]*Term
	plainVars   map[*Term]bool
	dirty       bool
	model       assignment
	prefixModel assignment
	auditCtr    int
	pathSym     bool // some property assertion on this path still contained a symbolic variable
	panicsOK    int  // >0: inside verifrt.Panics(f)
	pending     []pendingAssert
	snaps       []*snapNode
	panics      []*panicState
	syncMaps    map[*Value]*Map
	fs          *fsState
	streams     map[*Value]*streamState
	uuids       []*Term
	pools       map[*Value][]Value
	heldLocks   map[*Value]int
	nuuid       int
	onceDone    map[*Value]bool

	// per path results (merged into the harness stats at path end)
	res pathResult
}

type pathResult struct {
	hasDeeper     bool
	auditUnknown  int
	siteReach     map[string]int
	siteSym       map[string]int
	discharged    int
	single        int
	decisions     int
	violations    []Violation
	unsupported   map[string]int
	funcs         map[string]int
	sampleSMT     string
	stubs         map[string]int
	rewrites      int
	audits        int
	auditFail     []string
	byModel       int
	folded        int
	monitorChecks int
	silentWrites  int
}

const (
	mapInsertion = 0
	mapAll       = 1
)

// ---------------------------------------------------------------- path condition

func (ex *Exec) assume(t *Term) {
	if t == tTrue {
		return
	}
	if t == tFalse {
		panic(pathAbort{"infeasible"})
	}
	if t.Op == "and" {
		for _, a := range t.Args {
			ex.assume(a)
		}
		return
	}
	c := ex.canon(t)
	if c == tTrue {
		return // already implied by the equalities / atoms on the path
	}
	if c == tFalse {
		ex.auditInfeasible(t)
		panic(pathAbort{"infeasible"})
	}
	ex.pc = append(ex.pc, t)
	if ex.syncedC {
		ex.cvc.Assert(t)
	}
	if ex.syncedZ {
		ex.z3.Assert(t)
	}
	if ex.model != nil && !holds(t, ex.model) {
		ex.model = nil
	}
	if !ex.addFact(c) || (ex.dirty && !ex.recanon()) {
		ex.auditInfeasible(nil)
		panic(pathAbort{"infeasible"})
	}
}

const auditAlways = 96

// auditInfeasible: the rewriting layer declared pc ∧ t infeasible; confirm with cvc5 on a sample.
func (ex *Exec) auditInfeasible(t *Term) {
	ex.res.rewrites++
	n := ex.sh.cfg.AuditEvery
	if n <= 0 || ex.concreteMode() {
		return
	}
	ex.auditCtr++
	// the first decisions of every worker are always confirmed by the solver (small checks are audited in full),
	// afterwards every n-th
	if ex.auditCtr > auditAlways && ex.auditCtr%n != 0 {
		return
	}
	ex.res.audits++
	ex.syncC()
	var r string
	if t != nil {
		r = ex.cvc.Check(t)
	} else {
		r = ex.cvc.Check(nil)
	}
	ex.cvc.Pop()
	if r == "sat" {
		q := "<path condition>"
		if t != nil {
			q = t.smt()
		}
		ex.res.auditFail = append(ex.res.auditFail, "rewriting declared infeasible, cvc5 says sat: "+q)
	}
}

func (ex *Exec) syncC() {
	if ex.syncedC {
		return
	}
	ex.cvc.Reset()
	for _, t := range ex.pc {
		ex.cvc.Assert(t)
	}
	ex.syncedC = true
}

// zOK: z3 can be asked about the current path (no cvc5-only operators in it).
func (ex *Exec) zOK(q *Term) bool {
	if q != nil && q.cvcOnly {
		return false
	}
	for _, t := range ex.pc {
		if t.cvcOnly {
			return false
		}
	}
	return true
}

func (ex *Exec) syncZ() {
	if ex.syncedZ {
		return
	}
	ex.z3.Reset()
	for _, t := range ex.pc {
		ex.z3.Assert(t)
	}
	ex.syncedZ = true
}

// simp applies the facts already on the path.
func (ex *Exec) simp(t *Term) *Term { return ex.canon(t) }

// feasibleM decides whether pc ∧ t is satisfiable. A verified assignment proves "feasible" without the solver;
// rewriting to false proves "infeasible" (audited); everything else is the solver's answer (unknown = feasible).
func (ex *Exec) feasibleM(t *Term) (bool, assignment) {
	c := ex.canon(t)
	if c == tFalse {
		ex.auditInfeasible(t)
		return false, nil
	}
	if ex.concreteMode() {
		return c == tTrue, nil
	}
	if ex.model != nil && holds(t, ex.model) {
		ex.res.byModel++
		dbg[0]++
		return true, ex.model
	}
	if ex.model == nil {
		dbg[3]++
	}
	if !ex.sh.cfg.NoFast {
		cand := ex.searchModel(t)
		if cand != nil {
			ex.res.byModel++
			dbg[1]++
			return true, cand
		}
		dbg[2]++
		if dbgFail != nil && dbg[2]%500 == 1 {
			dbgFail(ex, t)
		}
	}
	if c == tTrue {
		return true, nil
	}
	if !ex.sh.cfg.NoFast && ex.refuted(t) {
		ex.auditInfeasible(t)
		return false, nil
	}
	ex.syncC()
	r := ex.cvc.Check(t)
	var m assignment
	if r == "sat" && !ex.sh.cfg.NoFast {
		m = ex.fetchModel(t)
	}
	ex.cvc.Pop()
	if r == "unknown" && !ex.zOK(t) && os.Getenv("VERIF_LOGUNKNOWN") != "" {
		fmt.Fprintf(os.Stderr, "UNKNOWN-FEASIBILITY(cvc5 only) %s\n%s\n", ex.curH.Name, ex.dumpQuery(t))
	}
	if r == "unknown" && ex.zOK(t) {
		ex.syncZ()
		r = ex.z3.Check(t)
		ex.z3.Pop()
		if r == "unknown" && os.Getenv("VERIF_LOGUNKNOWN") != "" {
			fmt.Fprintf(os.Stderr, "UNKNOWN-FEASIBILITY %s\n%s\n", ex.curH.Name, ex.dumpQuery(t))
		}
	}
	return r != "unsat", m
}

// fetchModel reads cvc5's model for the variables of pc ∧ t (solver still pushed) and keeps it if it verifies.
func (ex *Exec) fetchModel(t *Term) assignment {
	seen := map[*Term]bool{}
	var vars []*Term
	add := func(x *Term) {
		for _, v := range x.vs {
			if !seen[v] {
				seen[v] = true
				vars = append(vars, v)
			}
		}
	}
	for _, p := range ex.pc {
		add(p)
	}
	add(t)
	if len(vars) == 0 {
		return nil
	}
	raw := ex.cvc.ModelAll(vars)
	if raw == nil {
		return nil
	}
	m := assignment{}
	for _, v := range vars {
		val, ok := raw[v.Name]
		if !ok {
			return nil
		}
		switch v.Sort {
		case SStr:
			m[v] = mkStr(parseSMTString(val))
		case SInt:
			m[v] = mkInt(parseSMTInt(val))
		case SBool:
			m[v] = mkBool(strings.TrimSpace(val) == "true")
		}
	}
	if !ex.verified(m, t) {
		return nil
	}
	return m
}

func (ex *Exec) feasible(t *Term) bool {
	ok, _ := ex.feasibleM(t)
	return ok
}

// choose makes one decision among alternative constraints.
func (ex *Exec) choose(alts []*Term) int {
	ex.res.decisions++
	if ex.concreteMode() {
		for i, a := range alts {
			if ex.canon(a) == tTrue {
				return i
			}
		}
		d := ""
		if len(alts) > 0 {
			d = alts[0].smt()
			if len(d) > 200 {
				d = d[:200]
			}
		}
		panic(pathAbort{"unsupported: symbolic decision in concrete mode " + d})
	}
	if ex.pos < len(ex.prefix) {
		c := int(ex.prefix[ex.pos])
		ex.pos++
		ex.trace = append(ex.trace, int32(c))
		if ex.pos == len(ex.prefix) && ex.prefixModel != nil {
			ex.model = ex.prefixModel
		}
		ex.assume(alts[c])
		return c
	}
	var feas []int
	var models []assignment
	for i, a := range alts {
		// the path condition is satisfiable and the alternatives are exhaustive: when every other
		// alternative is infeasible the last one needs no query
		if i == len(alts)-1 && len(feas) == 0 && ex.exhaustive(alts) {
			feas = append(feas, i)
			models = append(models, nil)
			break
		}
		if ok, m := ex.feasibleM(a); ok {
			feas = append(feas, i)
			models = append(models, m)
		}
	}
	if len(feas) == 0 {
		panic(pathAbort{"infeasible"})
	}
	for k, j := range feas[1:] {
		p := make([]int32, len(ex.trace)+1)
		copy(p, ex.trace)
		p[len(ex.trace)] = int32(j)
		ex.newWork = append(ex.newWork, newItem{prefix: p, model: models[k+1]})
	}
	c := feas[0]
	ex.pos++
	ex.trace = append(ex.trace, int32(c))
	if models[0] != nil {
		ex.model = models[0]
	}
	ex.assume(alts[c])
	return c
}

var dbg [8]int64
var dbgFail func(ex *Exec, t *Term)

type newItem struct {
	prefix []int32
	model  assignment
}

// chooseFree is an unconstrained n-way decision.
func (ex *Exec) chooseFree(n int) int {
	ex.res.decisions++
	if n <= 1 {
		return 0
	}
	if ex.concreteMode() {
		return ex.rng().Intn(n)
	}
	if ex.pos < len(ex.prefix) {
		c := int(ex.prefix[ex.pos])
		ex.pos++
		ex.trace = append(ex.trace, int32(c))
		if ex.pos == len(ex.prefix) && ex.prefixModel != nil {
			ex.model = ex.prefixModel
		}
		return c
	}
	for j := 1; j < n; j++ {
		p := make([]int32, len(ex.trace)+1)
		copy(p, ex.trace)
		p[len(ex.trace)] = int32(j)
		ex.newWork = append(ex.newWork, newItem{prefix: p, model: ex.model})
	}
	ex.pos++
	ex.trace = append(ex.trace, 0)
	return 0
}

// exhaustive: the alternatives are syntactically a partition (t, not t) or (e1, .., en, none-of-them).
func (ex *Exec) exhaustive(alts []*Term) bool {
	if len(alts) == 2 && alts[1] == mkNot(alts[0]) {
		return true
	}
	if len(alts) >= 2 {
		var none []*Term
		for _, a := range alts[:len(alts)-1] {
			none = append(none, mkNot(a))
		}
		return alts[len(alts)-1] == mkAnd(none...)
	}
	return false
}

func (ex *Exec) decideBool(t *Term) bool {
	t = ex.simp(t)
	if t.Op == "cb" {
		return t.B
	}
	return ex.choose([]*Term{t, mkNot(t)}) == 0
}

// concretize forces an integer term to a concrete value by forking over lo..hi.
func (ex *Exec) concretize(t *Term, lo, hi int64) int64 {
	var alts []*Term
	for v := lo; v <= hi; v++ {
		alts = append(alts, mkEq(t, mkInt(v)))
	}
	c := ex.choose(alts)
	return lo + int64(c)
}

// ---------------------------------------------------------------- fresh variables

func (ex *Exec) freshVar(name string, s Sort, kind string, visible bool) *Term {
	prefix := "s"
	switch s {
	case SInt:
		prefix = "i"
	case SBool:
		prefix = "b"
	}
	n := fmt.Sprintf("%s%d_%s", prefix, ex.nvars, sanitize(name))
	ex.nvars++
	v := mkVar(n, s)
	if visible {
		ex.nondets = append(ex.nondets, nondetRec{Name: name, Kind: kind, T: v})
	}
	return v
}

func (ex *Exec) recordChoice(name string, c int) {
	ex.nondets = append(ex.nondets, nondetRec{Name: name, Kind: "choice", C: int64(c)})
}

func sanitize(s string) string {
	return strings.Map(func(r rune) rune {
		if (r >= 'a' && r <= 'z') || (r >= 'A' && r <= 'Z') || (r >= '0' && r <= '9') || r == '_' {
			return r
		}
		return '_'
	}, s)
}

// ---------------------------------------------------------------- assertions

// checkProp decides pc ∧ q with both solvers. Returns verdict and, for sat, a model.
func (ex *Exec) checkProp(q *Term, wantModel bool) (string, map[string]string, string) {
	ex.syncC()
	r := ex.cvc.Check(q)
	var model map[string]string
	note := ""
	vars := ex.modelVars()
	switch r {
	case "sat":
		if wantModel {
			model = ex.asciiModel(ex.cvc, vars)
		}
		ex.cvc.Pop()
		return "sat", model, "cvc5"
	case "unsat":
		ex.cvc.Pop()
		ex.propQ++
		if !ex.zOK(q) || ex.sh.cfg.CrossCheck == "off" || (ex.sh.cfg.CrossCheck == "sample" && ex.propQ%8 != 0) {
			return "unsat", nil, "single:cvc5"
		}
		ex.syncZ()
		rz := ex.z3.Check(q)
		ex.z3.Pop()
		switch rz {
		case "unsat":
			return "unsat", nil, "both"
		case "sat":
			return "disagreement", nil, "cvc5=unsat z3=sat"
		}
		return "unsat", nil, "single:cvc5"
	default:
		ex.cvc.Pop()
		if !ex.zOK(q) {
			return "unknown", nil, note
		}
		ex.syncZ()
		rz := ex.z3.Check(q)
		switch rz {
		case "sat":
			if wantModel {
				model = ex.asciiModel(ex.z3, vars)
			}
			ex.z3.Pop()
			return "sat", model, "z3"
		case "unsat":
			ex.z3.Pop()
			return "unsat", nil, "single:z3"
		}
		ex.z3.Pop()
		return "unknown", nil, note
	}
}

func (ex *Exec) modelVars() []*Term {
	var vs []*Term
	for _, n := range ex.nondets {
		if n.T != nil {
			vs = append(vs, n.T)
		}
	}
	return vs
}

// asciiModel extracts a model right after a sat answer (solver still pushed), preferring
// printable-ASCII, short strings when such a model exists.
func (ex *Exec) asciiModel(s *Solver, vars []*Term) map[string]string {
	var strs []*Term
	for _, v := range vars {
		if v.Sort == SStr && s.declared[v] {
			strs = append(strs, v)
		}
	}
	if len(strs) > 0 {
		s.Push()
		for _, v := range strs {
			s.send(fmt.Sprintf("(assert (str.in_re %s (re.* (re.range \"!\" \"~\"))))", v.Name))
		}
		r := s.CheckSat(nil)
		if r == "sat" {
			m := s.Model(vars)
			s.Pop()
			return m
		}
		s.Pop()
		// re-establish the unconstrained model
		if s.CheckSat(nil) != "sat" {
			return nil
		}
	}
	return s.Model(vars)
}

func (ex *Exec) replayValues(model map[string]string) []ReplayValue {
	out := make([]ReplayValue, 0, len(ex.nondets))
	for _, n := range ex.nondets {
		rv := ReplayValue{Name: n.Name, Kind: n.Kind}
		if n.T == nil {
			rv.Int = n.C
		} else if n.T.isConst() {
			switch n.T.Op {
			case "cs":
				rv.Str = n.T.S
			case "ci":
				rv.Int = n.T.I
			case "cb":
				rv.Bool = n.T.B
			}
		} else {
			raw, ok := model[n.T.Name]
			switch n.T.Sort {
			case SStr:
				if ok {
					rv.Str = parseSMTString(raw)
				}
			case SInt:
				if ok {
					rv.Int = parseSMTInt(raw)
				}
			case SBool:
				rv.Bool = ok && strings.TrimSpace(raw) == "true"
			}
		}
		out = append(out, rv)
	}
	return out
}

func parseSMTInt(s string) int64 {
	s = strings.TrimSpace(s)
	neg := false
	if strings.HasPrefix(s, "(-") {
		neg = true
		s = strings.TrimSuffix(strings.TrimSpace(strings.TrimPrefix(s, "(-")), ")")
	}
	var v int64
	fmt.Sscanf(strings.TrimSpace(s), "%d", &v)
	if neg {
		v = -v
	}
	return v
}

func (ex *Exec) addViolation(v Violation) {
	v.Harness = ex.curH.Name
	v.Trace = append([]int32{}, ex.trace...)
	ex.res.violations = append(ex.res.violations, v)
}

type pendingAssert struct {
	pcLen  int
	t      *Term
	site   string
	listed []string
	rterms []*Term
}

// assertTerm registers a property assertion. It is decided by the solvers when the path ends (flushAsserts):
// all assertions of a path are first discharged together (one query per solver: the disjunction of
// "path condition at assertion i ∧ ¬assertion i"); only when that is not unsat are they decided one by one.
// Execution continues under the assumption that the assertion holds.
func (ex *Exec) assertTerm(t *Term, site string) {
	ex.res.siteReach[site]++
	if t.hasVars() {
		ex.res.siteSym[site]++
		ex.pathSym = true
	}
	pa := pendingAssert{pcLen: len(ex.pc), t: t, site: site}
	for _, rn := range ex.sh.known.regionsFor(ex.curH.Prop, site) {
		if rt, ok := ex.regions[rn]; ok {
			pa.listed = append(pa.listed, rn)
			pa.rterms = append(pa.rterms, rt)
		}
	}
	if ex.sh.cfg.AssertMode == "batch" {
		ex.pending = append(ex.pending, pa)
		ex.assume(t)
		return
	}
	ex.assertNow(&pa)
}

// assertNow decides one assertion immediately in the incremental context of the path.
func (ex *Exec) assertNow(pa *pendingAssert) {
	q := pa.outsideQuery()
	proved := false
	folded := q != tFalse && ex.canon(q) == tFalse
	if folded {
		// the negated assertion rewrites to false under the equalities on the path
		ex.auditCtr++
		if ex.sh.cfg.Tier != "thorough" && (ex.sh.cfg.AuditEvery <= 0 || (ex.auditCtr > auditAlways && ex.auditCtr%ex.sh.cfg.AuditEvery != 0)) {
			ex.res.folded++
			ex.assume(pa.t)
			return
		}
		ex.res.audits++
	}
	if q != tFalse {
		verdict, model, by := ex.checkProp(q, true)
		if folded && (verdict == "sat" || verdict == "disagreement") {
			ex.res.auditFail = append(ex.res.auditFail, "assertion folded to true by rewriting but solver answered "+verdict+" at "+pa.site)
		}
		if folded && verdict != "unsat" && verdict != "sat" && verdict != "disagreement" {
			// the solvers gave up on a query the rewriting layer settles: the rewriting verdict stands, unaudited
			ex.res.folded++
			ex.res.auditUnknown++
			verdict = "folded"
		}
		if ex.res.sampleSMT == "" && q.hasVars() {
			ex.res.sampleSMT = ex.dumpQuery(q)
		}
		switch verdict {
		case "folded":
			proved = len(pa.listed) == 0
		case "unsat":
			ex.res.discharged++
			proved = len(pa.listed) == 0
			if strings.HasPrefix(by, "single") {
				ex.res.single++
			}
		case "sat":
			ex.addViolation(Violation{Site: pa.site, Kind: "assert", Model: model, Values: ex.replayValues(model), SMT: ex.dumpQuery(q), Msg: "solver=" + by})
		case "disagreement":
			ex.addViolation(Violation{Site: pa.site, Kind: "disagreement", Msg: by, SMT: ex.dumpQuery(q)})
		default:
			if os.Getenv("VERIF_LOGUNKNOWN") != "" {
				fmt.Fprintf(os.Stderr, "UNKNOWN-ASSERT %s\n%s\n", pa.site, ex.dumpQuery(q))
			}
			ex.addViolation(Violation{Site: pa.site, Kind: "inconclusive", Msg: "solver unknown", SMT: ex.dumpQuery(q)})
		}
	} else {
		ex.res.discharged++
		proved = len(pa.listed) == 0
	}
	for j, rn := range pa.listed {
		qi := mkAnd(mkNot(pa.t), pa.rterms[j])
		if qi == tFalse {
			continue
		}
		verdict, model, by := ex.checkProp(qi, true)
		if verdict == "sat" {
			ex.addViolation(Violation{Site: pa.site, Kind: "assert", Region: rn, Model: model, Values: ex.replayValues(model), SMT: ex.dumpQuery(qi), Msg: "solver=" + by})
		}
	}
	ok := proved
	if !ok {
		var m assignment
		ok, m = ex.feasibleM(pa.t)
		if m != nil {
			ex.model = m
		}
	}
	if ok {
		ex.assume(pa.t)
	} else {
		panic(pathAbort{"assert always false here"})
	}
}

func (pa *pendingAssert) outsideQuery() *Term {
	q := []*Term{mkNot(pa.t)}
	for _, r := range pa.rterms {
		q = append(q, mkNot(r))
	}
	return mkAnd(q...)
}

// checkFresh decides a closed formula in a fresh solver context with both solvers.
func (ex *Exec) checkFresh(pc []*Term, q *Term, wantModel bool) (string, map[string]string, string) {
	save := ex.pc
	ex.pc = pc
	ex.syncedC, ex.syncedZ = false, false
	defer func() { ex.pc = save; ex.syncedC, ex.syncedZ = false, false }()
	return ex.checkProp(q, wantModel)
}

func (ex *Exec) flushAsserts() {
	pend := ex.pending
	ex.pending = nil
	if len(pend) == 0 {
		return
	}
	pcAll := ex.pc
	// combined query
	minLen := pend[0].pcLen
	for _, pa := range pend {
		if pa.pcLen < minLen {
			minLen = pa.pcLen
		}
	}
	var ds []*Term
	for i := range pend {
		pa := &pend[i]
		c := append([]*Term{}, pcAll[minLen:pa.pcLen]...)
		c = append(c, pa.outsideQuery())
		ds = append(ds, mkAnd(c...))
	}
	Q := mkOr(ds...)
	if Q == tFalse {
		ex.res.discharged += len(pend)
	} else {
		verdict, _, by := ex.checkFresh(pcAll[:minLen], Q, false)
		if ex.res.sampleSMT == "" && Q.hasVars() {
			save := ex.pc
			ex.pc = pcAll[:minLen]
			ex.res.sampleSMT = ex.dumpQuery(Q)
			ex.pc = save
		}
		if verdict == "unsat" {
			ex.res.discharged += len(pend)
			if strings.HasPrefix(by, "single") {
				ex.res.single += len(pend)
			}
		} else {
			// locate: decide each assertion on its own
			for i := range pend {
				pa := &pend[i]
				q := pa.outsideQuery()
				if q == tFalse {
					ex.res.discharged++
					continue
				}
				v, model, by := ex.checkFresh(pcAll[:pa.pcLen], q, true)
				save := ex.pc
				ex.pc = pcAll[:pa.pcLen]
				switch v {
				case "unsat":
					ex.res.discharged++
					if strings.HasPrefix(by, "single") {
						ex.res.single++
					}
				case "sat":
					ex.addViolation(Violation{Site: pa.site, Kind: "assert", Model: model, Values: ex.replayValues(model), SMT: ex.dumpQuery(q), Msg: "solver=" + by})
				case "disagreement":
					ex.addViolation(Violation{Site: pa.site, Kind: "disagreement", Msg: by, SMT: ex.dumpQuery(q)})
				default:
					ex.addViolation(Violation{Site: pa.site, Kind: "inconclusive", Msg: "solver unknown", SMT: ex.dumpQuery(q)})
				}
				ex.pc = save
			}
		}
	}
	// listed known-finding regions: is there a counterexample inside each?
	for i := range pend {
		pa := &pend[i]
		for j, rn := range pa.listed {
			qi := mkAnd(mkNot(pa.t), pa.rterms[j])
			if qi == tFalse {
				continue
			}
			v, model, by := ex.checkFresh(pcAll[:pa.pcLen], qi, true)
			if v == "sat" {
				save := ex.pc
				ex.pc = pcAll[:pa.pcLen]
				ex.addViolation(Violation{Site: pa.site, Kind: "assert", Region: rn, Model: model, Values: ex.replayValues(model), SMT: ex.dumpQuery(qi), Msg: "solver=" + by})
				ex.pc = save
			}
		}
	}
}

func (ex *Exec) dumpQuery(q *Term) string {
	var sb strings.Builder
	seen := map[*Term]bool{}
	decl := func(t *Term) {
		for _, v := range t.vs {
			if !seen[v] {
				seen[v] = true
				fmt.Fprintf(&sb, "(declare-const %s %s)\n", v.Name, sortName(v.Sort))
			}
		}
	}
	for _, t := range ex.pc {
		decl(t)
	}
	decl(q)
	for _, t := range ex.pc {
		sb.WriteString("(assert " + t.smt() + ")\n")
	}
	sb.WriteString("(assert " + q.smt() + ")\n(check-sat)\n")
	s := sb.String()
	if len(s) > 20000 {
		s = s[:20000] + "\n; truncated\n"
	}
	return s
}
