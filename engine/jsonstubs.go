package main

import (
	"strconv"
	"fmt"
	"go/types"
	"strings"

	"golang.org/x/tools/go/ssa"
)

// Streams, encoders / decoders, byte buffers and scanners over the abstract JSON domain.

type textBytes struct { // a non-JSON text: its lines
	lines    []Value
	overlong int // 1-based index of a line longer than bufio.Scanner's buffer (0 = none)
}

type streamState struct {
	tree     *jval
	text     *textBytes
	pos      int // 0 = at start, 1 = consumed
	written  int
	closed   bool
	failSeek bool
	lead     Value // first byte of the text layout (int64 | *Term), nil = not modelled
}

type encAbs struct{ w Value }
type decAbs struct{ r Value }
type bufAbs struct{ content Value }
type scanAbs struct {
	lines    []Value
	i        int
	overlong int
	tooLong  bool
}

func (ex *Exec) stream(p Ptr) *streamState {
	if ex.streams == nil {
		ex.streams = map[*Value]*streamState{}
	}
	s, ok := ex.streams[p.C]
	if !ok {
		s = &streamState{}
		ex.streams[p.C] = s
	}
	return s
}

// invokeMethod calls method name on an interface value (abstract invoker, intrinsic or interpreted method).
func (ex *Exec) invokeMethod(iv Iface, name string, args []Value, site string) Value {
	if iv.T == nil {
		panic(goPanic{"invoke on nil interface", site})
	}
	if a, ok := iv.V.(absInvoker); ok {
		return a.invoke(ex, name, args, site)
	}
	m := ex.prog.LookupMethod(iv.T, nil, name)
	if m == nil {
		panic(pathAbort{"unsupported: no method " + name + " on " + iv.T.String()})
	}
	return ex.callFn(m, append([]Value{iv.V}, args...), nil, site)
}

// readAll consumes an io.Reader: the content of an abstract stream, or whatever the reader's own Read method yields.
func (ex *Exec) readAll(r Value, site string) (Value, Iface) {
	iv, ok := r.(Iface)
	if !ok || iv.T == nil {
		panic(goPanic{"read from nil reader", site})
	}
	if p, ok := iv.V.(Ptr); ok && !p.IsNil() {
		if st, ok := ex.streams[p.C]; ok {
			if st.pos != 0 {
				return &jsonBytes{tree: nil}, Iface{} // nothing left
			}
			st.pos = 1
			if st.text != nil {
				return st.text, Iface{}
			}
			return &jsonBytes{tree: st.tree}, Iface{}
		}
		if b, ok := (*p.C).(*bufAbs); ok {
			c := b.content
			b.content = nil
			if c == nil {
				return &jsonBytes{}, Iface{}
			}
			return c, Iface{}
		}
	}
	panic(pathAbort{"unsupported: reading from " + iv.T.String()})
}

func (ex *Exec) writeTo(w Value, data Value, site string) Iface {
	iv, ok := w.(Iface)
	if !ok || iv.T == nil {
		panic(goPanic{"write to nil writer", site})
	}
	if p, ok := iv.V.(Ptr); ok && !p.IsNil() {
		if st, ok := ex.streams[p.C]; ok {
			if jb, ok := data.(*jsonBytes); ok {
				st.tree = jb.tree
			}
			st.written++
			return Iface{}
		}
		if b, ok := (*p.C).(*bufAbs); ok {
			b.content = data
			return Iface{}
		}
	}
	r := ex.invokeMethod(iv, "Write", []Value{data}, site)
	if tu, ok := r.(Tuple); ok {
		return tu[1].(Iface)
	}
	return Iface{}
}

// toJ builds the harness-visible *verifrt.J for a tree.
func (ex *Exec) toJ(j *jval) Value {
	jt := ex.sh.jType
	if j == nil {
		return Ptr{}
	}
	st := jt.Underlying().(*types.Struct)
	sv := ex.zero(jt).(Struct)
	set := func(name string, v Value) {
		for i := 0; i < st.NumFields(); i++ {
			if st.Field(i).Name() == name {
				sv[i] = v
			}
		}
	}
	set("Kind", int64(j.kind))
	switch j.kind {
	case jBool:
		set("B", j.v)
	case jNum:
		if f, ok := j.v.(float64); ok {
			set("N", int64(f))
		} else {
			set("N", j.v)
		}
	case jStr:
		set("S", j.v)
	case jArr, jObj:
		arr := make([]Value, len(j.items))
		for i, it := range j.items {
			arr[i] = ex.toJ(it)
		}
		set("Items", Slice{Arr: arr, Len: len(arr), Cap: len(arr), O: ex.newObj("J.items")})
		if j.kind == jObj {
			ks := make([]Value, len(j.keys))
			for i, k := range j.keys {
				ks[i] = k
			}
			set("Keys", Slice{Arr: ks, Len: len(ks), Cap: len(ks), O: ex.newObj("J.keys")})
		}
	}
	c := new(Value)
	*c = sv
	return Ptr{C: c, O: ex.newObj("J")}
}

// fromJ reads a harness-built *verifrt.J.
func (ex *Exec) fromJ(v Value) *jval {
	p, ok := v.(Ptr)
	if !ok || p.IsNil() {
		return &jval{kind: jNull}
	}
	st := ex.sh.jType.Underlying().(*types.Struct)
	sv := (*p.C).(Struct)
	get := func(name string) Value {
		for i := 0; i < st.NumFields(); i++ {
			if st.Field(i).Name() == name {
				return sv[i]
			}
		}
		return nil
	}
	kind, ok := get("Kind").(int64)
	if !ok {
		panic(pathAbort{"unsupported: symbolic JSON kind"})
	}
	out := &jval{kind: int(kind)}
	switch out.kind {
	case jBool:
		out.v = get("B")
	case jNum:
		out.v = get("N")
		if lit, ok := get("Lit").(string); ok && lit != "" {
			f, err := strconv.ParseFloat(lit, 64)
			if err != nil {
				panic(pathAbort{"malformed J number literal"})
			}
			if f == float64(int64(f)) {
				out.v = int64(f)
			} else {
				out.v = f
			}
		}
	case jStr:
		out.v = get("S")
	case jArr, jObj:
		items := get("Items").(Slice)
		for i := 0; i < items.Len; i++ {
			out.items = append(out.items, ex.fromJ(items.Arr[items.Off+i]))
		}
		if out.kind == jObj {
			keys := get("Keys").(Slice)
			for i := 0; i < keys.Len; i++ {
				k, ok := keys.Arr[keys.Off+i].(string)
				if !ok {
					panic(pathAbort{"unsupported: symbolic JSON member name"})
				}
				out.keys = append(out.keys, k)
			}
			if len(out.keys) != len(out.items) {
				panic(pathAbort{"malformed J object"})
			}
		}
	}
	return out
}

func init() {
	reg := func(name string, f intrinsic) { intrinsics[name] = f }
	marshal := func(ex *Exec, fn *ssa.Function, args []Value, site string) Value {
		tree, err := ex.jsonMarshal(args[0], site)
		if err != nil {
			return Tuple{Slice{Nil: true}, *err}
		}
		return Tuple{&jsonBytes{tree: tree}, Iface{}}
	}
	reg("encoding/json.Marshal", marshal)
	reg("github.com/spdx/tools-golang/json/marshal.JSON", marshal)
	reg("encoding/json.Unmarshal", func(ex *Exec, fn *ssa.Function, args []Value, site string) Value {
		return ex.jsonUnmarshal(args[0], args[1], site)
	})
	reg("encoding/json.NewEncoder", func(ex *Exec, fn *ssa.Function, args []Value, site string) Value {
		c := new(Value)
		*c = &encAbs{w: args[0]}
		return Ptr{C: c, O: ex.newObj(site)}
	})
	reg("(*encoding/json.Encoder).SetIndent", noop)
	reg("(*encoding/json.Encoder).SetEscapeHTML", noop)
	reg("(*encoding/json.Encoder).Encode", func(ex *Exec, fn *ssa.Function, args []Value, site string) Value {
		p := args[0].(Ptr)
		if p.IsNil() {
			panic(goPanic{"nil *json.Encoder", site})
		}
		e := (*p.C).(*encAbs)
		tree, err := ex.jsonMarshal(args[1], site)
		if err != nil {
			return *err // nothing is written when encoding fails
		}
		return ex.writeTo(e.w, &jsonBytes{tree: tree}, site)
	})
	reg("encoding/json.NewDecoder", func(ex *Exec, fn *ssa.Function, args []Value, site string) Value {
		c := new(Value)
		*c = &decAbs{r: args[0]}
		return Ptr{C: c, O: ex.newObj(site)}
	})
	reg("(*encoding/json.Decoder).Decode", func(ex *Exec, fn *ssa.Function, args []Value, site string) Value {
		p := args[0].(Ptr)
		d := (*p.C).(*decAbs)
		data, err := ex.readAll(d.r, site)
		if err.T != nil {
			return err
		}
		if jb, ok := data.(*jsonBytes); ok && jb.tree == nil {
			return Iface{T: opaqueType, V: &errAbs{site: site, msg: "EOF", kind: "eof"}}
		}
		return ex.jsonUnmarshal(data, args[1], site)
	})
	reg("io.ReadAll", func(ex *Exec, fn *ssa.Function, args []Value, site string) Value {
		data, err := ex.readAll(args[0], site)
		return Tuple{data, err}
	})
	reg("(*bytes.Buffer).ReadFrom", func(ex *Exec, fn *ssa.Function, args []Value, site string) Value {
		p := args[0].(Ptr)
		data, err := ex.readAll(args[1], site)
		*p.C = &bufAbs{content: data}
		return Tuple{int64(1), err}
	})
	reg("(*bytes.Buffer).Bytes", func(ex *Exec, fn *ssa.Function, args []Value, site string) Value {
		p := args[0].(Ptr)
		if b, ok := (*p.C).(*bufAbs); ok && b.content != nil {
			return b.content
		}
		return &jsonBytes{}
	})
	reg("(*bytes.Buffer).Write", func(ex *Exec, fn *ssa.Function, args []Value, site string) Value {
		p := args[0].(Ptr)
		*p.C = &bufAbs{content: args[1]}
		return Tuple{int64(1), Iface{}}
	})
	reg("bufio.NewScanner", func(ex *Exec, fn *ssa.Function, args []Value, site string) Value {
		data, _ := ex.readAll(args[0], site)
		sc := &scanAbs{}
		if tb, ok := data.(*textBytes); ok {
			sc.lines = tb.lines
			sc.overlong = tb.overlong
		}
		c := new(Value)
		*c = sc
		return Ptr{C: c, O: ex.newObj(site)}
	})
	reg("(*bufio.Scanner).Split", noop)
	reg("(*bufio.Scanner).Buffer", noop)
	reg("(*bufio.Scanner).Scan", func(ex *Exec, fn *ssa.Function, args []Value, site string) Value {
		sc := (*args[0].(Ptr).C).(*scanAbs)
		if sc.overlong > 0 && sc.i+1 == sc.overlong {
			sc.tooLong = true // the token does not fit the buffer: scanning stops, Err reports bufio.ErrTooLong
			sc.i = len(sc.lines) + 1
			return false
		}
		if sc.i < len(sc.lines) {
			sc.i++
			return true
		}
		return false
	})
	scanCur := func(args []Value) Value {
		sc := (*args[0].(Ptr).C).(*scanAbs)
		if sc.i == 0 || sc.i > len(sc.lines) {
			return ""
		}
		return sc.lines[sc.i-1]
	}
	reg("(*bufio.Scanner).Bytes", func(ex *Exec, fn *ssa.Function, args []Value, site string) Value {
		switch x := scanCur(args).(type) {
		case *Term:
			return BytesView{x}
		case string:
			return BytesView{mkStr(x)}
		}
		return BytesView{mkStr("")}
	})
	reg("(*bufio.Scanner).Text", func(ex *Exec, fn *ssa.Function, args []Value, site string) Value { return scanCur(args) })
	reg("(*bufio.Scanner).Err", func(ex *Exec, fn *ssa.Function, args []Value, site string) Value {
		if sc := (*args[0].(Ptr).C).(*scanAbs); sc.tooLong {
			if g := ex.prog.ImportedPackage("bufio"); g != nil {
				if v, ok := g.Members["ErrTooLong"].(*ssa.Global); ok {
					return ex.load(ex.global(v), site)
				}
			}
			return Iface{T: opaqueType, V: &errAbs{site: site, msg: "bufio.Scanner: token too long", kind: "toolong"}}
		}
		return Iface{}
	})
	reg("(*github.com/protobom/protobom/internal/verifrt.Stream).SetOverlongLine", func(ex *Exec, fn *ssa.Function, args []Value, site string) Value {
		st := ex.stream(args[0].(Ptr))
		if st.text != nil {
			st.text.overlong = int(args[1].(int64))
		}
		return nil
	})

	// ---- verifrt.Stream
	newStream := func(ex *Exec, st *streamState, site string) Value {
		c := new(Value)
		*c = ex.zero(ex.sh.streamType)
		p := Ptr{C: c, O: ex.newObj(site)}
		if ex.streams == nil {
			ex.streams = map[*Value]*streamState{}
		}
		ex.streams[p.C] = st
		return p
	}
	reg(rt+"NewStream", func(ex *Exec, fn *ssa.Function, args []Value, site string) Value {
		return newStream(ex, &streamState{}, site)
	})
	reg(rt+"NewJSONStream", func(ex *Exec, fn *ssa.Function, args []Value, site string) Value {
		return newStream(ex, &streamState{tree: ex.fromJ(args[0])}, site)
	})
	reg(rt+"NewTextStream", func(ex *Exec, fn *ssa.Function, args []Value, site string) Value {
		return newStream(ex, &streamState{text: &textBytes{lines: sliceVals(args[0])}}, site)
	})
	sm := "(*github.com/protobom/protobom/internal/verifrt.Stream)."
	reg(sm+"Write", func(ex *Exec, fn *ssa.Function, args []Value, site string) Value {
		st := ex.stream(args[0].(Ptr))
		if jb, ok := args[1].(*jsonBytes); ok {
			st.tree = jb.tree
		}
		st.written++
		return Tuple{int64(1), Iface{}}
	})
	reg(sm+"Close", func(ex *Exec, fn *ssa.Function, args []Value, site string) Value {
		ex.stream(args[0].(Ptr)).closed = true
		return Iface{}
	})
	reg(sm+"Read", func(ex *Exec, fn *ssa.Function, args []Value, site string) Value {
		// the only byte-level view of a JSON stream that is modelled: its first byte (leading layout or the opening brace)
		st := ex.stream(args[0].(Ptr))
		buf, ok := args[1].(Slice)
		lead := st.lead
		if lead == nil && st.tree != nil {
			// no layout given: the compact text of an object / array starts with its bracket
			switch st.tree.kind {
			case jObj:
				lead = int64('{')
			case jArr:
				lead = int64('[')
			}
		}
		if ok && lead != nil && st.tree != nil && st.pos == 0 && buf.Len == 1 {
			buf.Arr[buf.Off] = lead
			st.pos = 2
			return Tuple{int64(1), Iface{}}
		}
		panic(pathAbort{"unsupported: byte-level Read on an abstract stream"})
	})
	reg(sm+"SetLayoutFirstByte", func(ex *Exec, fn *ssa.Function, args []Value, site string) Value {
		ex.stream(args[0].(Ptr)).lead = args[1]
		return nil
	})
	reg(sm+"Seek", func(ex *Exec, fn *ssa.Function, args []Value, site string) Value {
		st := ex.stream(args[0].(Ptr))
		if st.failSeek {
			return Tuple{int64(0), Iface{T: opaqueType, V: &errAbs{site: site, msg: "seek failed", kind: "io"}}}
		}
		off, ok1 := args[1].(int64)
		wh, ok2 := args[2].(int64)
		if !ok1 || !ok2 || off != 0 || wh != 0 {
			panic(pathAbort{"unsupported: Seek other than (0, io.SeekStart)"})
		}
		st.pos = 0
		return Tuple{int64(0), Iface{}}
	})
	reg(sm+"Rewind", func(ex *Exec, fn *ssa.Function, args []Value, site string) Value {
		ex.stream(args[0].(Ptr)).pos = 0
		return nil
	})
	reg(sm+"AtStart", func(ex *Exec, fn *ssa.Function, args []Value, site string) Value {
		return ex.stream(args[0].(Ptr)).pos == 0
	})
	reg(sm+"FailSeek", func(ex *Exec, fn *ssa.Function, args []Value, site string) Value {
		ex.stream(args[0].(Ptr)).failSeek = args[1].(bool)
		return nil
	})
	reg(sm+"Tree", func(ex *Exec, fn *ssa.Function, args []Value, site string) Value {
		return ex.toJ(ex.stream(args[0].(Ptr)).tree)
	})
	reg(sm+"Wrote", func(ex *Exec, fn *ssa.Function, args []Value, site string) Value {
		return ex.stream(args[0].(Ptr)).written > 0
	})

	// ---- library helpers around the JSON layer
	reg("errors.As", func(ex *Exec, fn *ssa.Function, args []Value, site string) Value {
		e := args[0].(Iface)
		tgt := args[1].(Iface)
		tp, ok := tgt.V.(Ptr)
		if !ok || tgt.T == nil {
			return false
		}
		want := tgt.T.Underlying().(*types.Pointer).Elem()
		for e.T != nil {
			if types.Identical(e.T, want) {
				*tp.C = e.V
				return true
			}
			ea, ok := e.V.(*errAbs)
			if !ok || ea.wraps == nil {
				break
			}
			e = *ea.wraps
		}
		return false
	})
	reg("github.com/spdx/tools-golang/convert.Document", func(ex *Exec, fn *ssa.Function, args []Value, site string) Value {
		from, to := args[0].(Iface), args[1].(Iface)
		tp, ok := to.V.(Ptr)
		if !ok || tp.IsNil() {
			return mkErr(site, "convert: nil target")
		}
		want := to.T.Underlying().(*types.Pointer).Elem()
		ft, fv := from.T, from.V
		if pt, ok := ft.Underlying().(*types.Pointer); ok {
			ft = pt.Elem()
			fv = *fv.(Ptr).C
		}
		if !types.Identical(ft, want) {
			panic(pathAbort{"unsupported: SPDX document version conversion " + ft.String() + " -> " + want.String()})
		}
		assignCell(tp.C, fv)
		return Iface{}
	})
	reg("github.com/spdx/tools-golang/convert.IsPtr", func(ex *Exec, fn *ssa.Function, args []Value, site string) Value {
		iv := args[0].(Iface)
		if iv.T == nil {
			return false
		}
		_, ok := iv.T.Underlying().(*types.Pointer)
		return ok
	})
	reg("(github.com/CycloneDX/cyclonedx-go.BOM).copy", func(ex *Exec, fn *ssa.Function, args []Value, site string) Value {
		dst := args[1].(Ptr)
		assignCell(dst.C, gobNormalize(deepClone(args[0], map[*Value]*Value{})))
		return Iface{}
	})
	reg("strings.Trim", func(ex *Exec, fn *ssa.Function, args []Value, site string) Value {
		a, aok := args[0].(string)
		cut, cok := args[1].(string)
		if aok && cok {
			return strings.Trim(a, cut)
		}
		s := strTerm(args[0])
		if !cok || len(cut) != 1 {
			panic(pathAbort{"unsupported: symbolic strings.Trim cutset"})
		}
		// the common shape: q.. ++ x ++ ..q: strip the cut character from the constant ends
		at := append([]*Term{}, catAtoms(s)...)
		if len(at) >= 1 && at[0].Op == "cs" && strings.HasPrefix(at[0].S, cut) {
			at[0] = mkStr(strings.TrimLeft(at[0].S, cut))
		}
		if len(at) >= 1 && at[len(at)-1].Op == "cs" && strings.HasSuffix(at[len(at)-1].S, cut) {
			at[len(at)-1] = mkStr(strings.TrimRight(at[len(at)-1].S, cut))
		}
		inner := mkConcat(at...)
		if ex.decideBool(mkAnd(mkNot(mkPrefixOf(mkStr(cut), inner)), mkNot(mkSuffixOf(mkStr(cut), inner)))) {
			return lower(inner)
		}
		panic(pathAbort{"unsupported: strings.Trim on this symbolic shape"})
	})
	reg("strings.TrimLeft", func(ex *Exec, fn *ssa.Function, args []Value, site string) Value {
		a, aok := args[0].(string)
		cut, cok := args[1].(string)
		if aok && cok {
			return strings.TrimLeft(a, cut)
		}
		s := strTerm(args[0])
		if !cok {
			panic(pathAbort{"unsupported: symbolic cutset"})
		}
		{
			at := append([]*Term{}, catAtoms(s)...)
			if at[0].Op == "cs" {
				at[0] = mkStr(strings.TrimLeft(at[0].S, cut))
			}
			inner := mkConcat(at...)
			if ex.trimmedEnds(inner, cut, true, false) {
				return lower(inner)
			}
		}
		none := []*Term{}
		for _, ch := range cut {
			none = append(none, mkNot(mkPrefixOf(mkStr(string(ch)), s)))
		}
		if ex.decideBool(mkAnd(none...)) {
			return args[0]
		}
		panic(pathAbort{"unsupported: strings.TrimLeft that trims a symbolic string"})
	})
	reg("strings.SplitN", func(ex *Exec, fn *ssa.Function, args []Value, site string) Value {
		a, aok := args[0].(string)
		sep, sok := args[1].(string)
		n, nok := args[2].(int64)
		mk := func(parts []Value) Value {
			return Slice{Arr: parts, Len: len(parts), Cap: len(parts), O: ex.newObj(site)}
		}
		if aok && sok && nok {
			var parts []Value
			for _, p := range strings.SplitN(a, sep, int(n)) {
				parts = append(parts, p)
			}
			return mk(parts)
		}
		if !sok || !nok || n != 2 || sep == "" {
			panic(pathAbort{"unsupported: symbolic strings.SplitN shape"})
		}
		s := strTerm(args[0])
		// the first occurrence lies inside the leading constant: split there, no solver needed
		if at := catAtoms(s); at[0].Op == "cs" {
			if i := strings.Index(at[0].S, sep); i >= 0 {
				rest := append([]*Term{mkStr(at[0].S[i+len(sep):])}, at[1:]...)
				return mk([]Value{at[0].S[:i], lower(mkConcat(rest...))})
			}
		}
		if !ex.decideBool(mkContains(s, mkStr(sep))) {
			return mk([]Value{args[0]})
		}
		// first occurrence: head has no separator (ending included), tail is the rest
		head := ex.freshVar("splithead", SStr, "string", false)
		tail := ex.freshVar("splittail", SStr, "string", false)
		ex.assume(mkEq(s, mkConcat(head, mkStr(sep), tail)))
		ex.assume(mkNot(mkContains(mkConcat(head, mkStr(sep[:len(sep)-1])), mkStr(sep))))
		return mk([]Value{head, tail})
	})
	reg("bytes.TrimSpace", func(ex *Exec, fn *ssa.Function, args []Value, site string) Value { return args[0] })
}

// gobNormalize applies what a gob round trip does to the copy: empty slices and maps come back nil, and a pointer
// whose target is such an empty collection comes back nil.
func gobNormalize(v Value) Value {
	switch x := v.(type) {
	case Struct:
		for i := range x {
			x[i] = gobNormalize(x[i])
		}
		return x
	case Ptr:
		if x.IsNil() {
			return x
		}
		*x.C = gobNormalize(*x.C)
		if s, ok := (*x.C).(Slice); ok && (s.Nil || s.Len == 0) {
			return Ptr{}
		}
		if m, ok := (*x.C).(*Map); ok && (m == nil || len(m.Entries) == 0) {
			return Ptr{}
		}
		return x
	case Slice:
		if x.Nil || x.Len == 0 {
			return Slice{Nil: true}
		}
		for i := 0; i < x.Len; i++ {
			x.Arr[x.Off+i] = gobNormalize(x.Arr[x.Off+i])
		}
		return x
	case *Map:
		if x == nil || len(x.Entries) == 0 {
			return (*Map)(nil)
		}
		return x
	}
	return v
}

var _ = fmt.Sprint
