package main

import (
	"fmt"
	"sort"
	"strconv"
	"strings"
	"sync"
	"unsafe"
)

// Sort of an SMT term.
type Sort int

const (
	SBool Sort = iota
	SInt
	SStr
)

// Term is a hash-consed SMT term (shared by all workers; immutable once interned).
type Term struct {
	Op   string
	Args []*Term
	Sort Sort
	Name string // for "var" and "uf"
	S    string // string const
	I    int64  // int const
	B    bool   // bool const
	key  string
	vs   []*Term // free variables, sorted by name
	uf   bool    // contains an uninterpreted function application
	cvcOnly bool // contains a cvc5 extension z3 does not know (str.to_lower / str.to_upper)
}

const termShards = 4096

type termShard struct {
	mu sync.RWMutex
	m  map[string]*Term
}

var termTab [termShards]termShard

func init() {
	for i := range termTab {
		termTab[i].m = map[string]*Term{}
	}
}

func intern(t *Term) *Term {
	buf := make([]byte, 0, 32+8*len(t.Args))
	buf = append(buf, t.Op...)
	buf = append(buf, '|')
	switch t.Op {
	case "var", "uf", "raw":
		buf = append(buf, t.Name...)
		buf = append(buf, '#', byte('0'+t.Sort))
	case "cs":
		buf = strconv.AppendQuote(buf, t.S)
	case "ci":
		buf = strconv.AppendInt(buf, t.I, 10)
	case "cb":
		buf = strconv.AppendBool(buf, t.B)
	}
	var h uint32 = 2166136261
	for _, a := range t.Args {
		p := uint64(uintptr(unsafe.Pointer(a)))
		buf = append(buf, '(', byte(p), byte(p>>8), byte(p>>16), byte(p>>24), byte(p>>32), byte(p>>40), byte(p>>48), byte(p>>56))
	}
	for _, c := range buf {
		h = (h ^ uint32(c)) * 16777619
	}
	sh := &termTab[h%termShards]
	sh.mu.RLock()
	e, ok := sh.m[string(buf)]
	sh.mu.RUnlock()
	if ok {
		return e
	}
	t.key = string(buf)
	t.uf = t.Op == "uf"
	t.cvcOnly = t.Op == "str.to_lower" || t.Op == "str.to_upper"
	for _, a := range t.Args {
		if a.uf {
			t.uf = true
		}
		if a.cvcOnly {
			t.cvcOnly = true
		}
	}
	// free variables
	if t.Op == "var" {
		t.vs = []*Term{t}
	} else if len(t.Args) == 1 {
		t.vs = t.Args[0].vs
	} else if len(t.Args) > 1 {
		seen := map[*Term]bool{}
		for _, a := range t.Args {
			for _, v := range a.vs {
				if !seen[v] {
					seen[v] = true
					t.vs = append(t.vs, v)
				}
			}
		}
		sort.Slice(t.vs, func(i, j int) bool { return t.vs[i].Name < t.vs[j].Name })
	}
	sh.mu.Lock()
	defer sh.mu.Unlock()
	if e, ok := sh.m[t.key]; ok {
		return e
	}
	sh.m[t.key] = t
	return t
}

func mkVar(name string, s Sort) *Term { return intern(&Term{Op: "var", Name: name, Sort: s}) }
func mkStr(s string) *Term            { return intern(&Term{Op: "cs", S: s, Sort: SStr}) }
func mkInt(i int64) *Term             { return intern(&Term{Op: "ci", I: i, Sort: SInt}) }
func mkBool(b bool) *Term {
	if tTrue != nil {
		if b {
			return tTrue
		}
		return tFalse
	}
	return intern(&Term{Op: "cb", B: b, Sort: SBool})
}

var tTrue, tFalse *Term

func init() { tTrue, tFalse = mkBool(true), mkBool(false) }

func (t *Term) isConst() bool { return t.Op == "cs" || t.Op == "ci" || t.Op == "cb" }

func constEq(a, b *Term) bool {
	switch a.Op {
	case "cs":
		return b.Op == "cs" && a.S == b.S
	case "ci":
		return b.Op == "ci" && a.I == b.I
	case "cb":
		return b.Op == "cb" && a.B == b.B
	}
	return false
}

func mkNot(a *Term) *Term {
	if a.Op == "cb" {
		return mkBool(!a.B)
	}
	if a.Op == "not" {
		return a.Args[0]
	}
	return intern(&Term{Op: "not", Args: []*Term{a}, Sort: SBool})
}

func mkAnd(as ...*Term) *Term {
	var out []*Term
	seen := map[*Term]bool{}
	for _, a := range as {
		if a.Op == "cb" {
			if !a.B {
				return tFalse
			}
			continue
		}
		if a.Op == "and" {
			for _, x := range a.Args {
				if !seen[x] {
					seen[x] = true
					out = append(out, x)
				}
			}
			continue
		}
		if !seen[a] {
			seen[a] = true
			out = append(out, a)
		}
	}
	for _, a := range out {
		if seen[mkNot(a)] {
			return tFalse
		}
		// x1 .. xn together with not(and(x1 .. xn)) (unit propagation over one clause)
		if a.Op == "not" && a.Args[0].Op == "and" {
			all := true
			for _, c := range a.Args[0].Args {
				if !seen[c] {
					all = false
					break
				}
			}
			if all {
				return tFalse
			}
		}
	}
	if len(out) == 0 {
		return tTrue
	}
	if len(out) == 1 {
		return out[0]
	}
	return intern(&Term{Op: "and", Args: out, Sort: SBool})
}

func mkOr(as ...*Term) *Term {
	neg := make([]*Term, len(as))
	for i, a := range as {
		neg[i] = mkNot(a)
	}
	return mkNot(mkAnd(neg...))
}

func mkImplies(a, b *Term) *Term { return mkOr(mkNot(a), b) }

// flatten a string term into concat atoms
func catAtoms(t *Term) []*Term {
	if t.Op == "str.++" {
		return t.Args
	}
	return []*Term{t}
}

func mkConcat(as ...*Term) *Term {
	var out []*Term
	for _, a := range as {
		for _, x := range catAtoms(a) {
			if x.Op == "cs" && x.S == "" {
				continue
			}
			if x.Op == "cs" && len(out) > 0 && out[len(out)-1].Op == "cs" {
				out[len(out)-1] = mkStr(out[len(out)-1].S + x.S)
				continue
			}
			out = append(out, x)
		}
	}
	if len(out) == 0 {
		return mkStr("")
	}
	if len(out) == 1 {
		return out[0]
	}
	return intern(&Term{Op: "str.++", Args: out, Sort: SStr})
}

func mkEq(a, b *Term) *Term {
	if a == b {
		return tTrue
	}
	if a.isConst() && b.isConst() {
		return mkBool(constEq(a, b))
	}
	if a.Sort == SBool {
		if a.Op == "cb" {
			if a.B {
				return b
			}
			return mkNot(b)
		}
		if b.Op == "cb" {
			if b.B {
				return a
			}
			return mkNot(a)
		}
	}
	if a.Op == "uf" && b.Op == "uf" && a.Name == "H" && b.Name == "H" && len(a.Args) == 1 && len(b.Args) == 1 {
		// the digest is modelled as an injective function (stated assumption): equal digests iff equal texts
		return mkEq(a.Args[0], b.Args[0])
	}
	if a.Sort == SStr {
		// strip common prefix / suffix atoms; detect constant mismatch
		aa, ba := catAtoms(a), catAtoms(b)
		for len(aa) > 0 && len(ba) > 0 && aa[0] == ba[0] {
			aa, ba = aa[1:], ba[1:]
		}
		for len(aa) > 0 && len(ba) > 0 && aa[len(aa)-1] == ba[len(ba)-1] {
			aa, ba = aa[:len(aa)-1], ba[:len(ba)-1]
		}
		if len(aa) == 0 && len(ba) == 0 {
			return tTrue
		}
		if len(aa) > 0 && len(ba) > 0 && aa[0].Op == "cs" && ba[0].Op == "cs" {
			x, y := aa[0].S, ba[0].S
			n := len(x)
			if len(y) < n {
				n = len(y)
			}
			if x[:n] != y[:n] {
				return tFalse
			}
		}
		if len(aa) > 0 && len(ba) > 0 && aa[len(aa)-1].Op == "cs" && ba[len(ba)-1].Op == "cs" {
			x, y := aa[len(aa)-1].S, ba[len(ba)-1].S
			n := len(x)
			if len(y) < n {
				n = len(y)
			}
			if x[len(x)-n:] != y[len(y)-n:] {
				return tFalse
			}
		}
		a, b = mkConcat(aa...), mkConcat(ba...)
		if a == b {
			return tTrue
		}
		if a.Op == "uf" && b.Op == "uf" && a.Name == "H" && b.Name == "H" && len(a.Args) == 1 && len(b.Args) == 1 {
			return mkEq(a.Args[0], b.Args[0]) // what is left after stripping common text are two digests
		}
		if a.isConst() && b.isConst() {
			return mkBool(constEq(a, b))
		}
	}
	if a.Sort == SInt {
		// x+c1 = c2 style folding is left to the solver
	}
	if a.key > b.key {
		a, b = b, a
	}
	return intern(&Term{Op: "=", Args: []*Term{a, b}, Sort: SBool})
}

func mkIte(c, a, b *Term) *Term {
	if c.Op == "cb" {
		if c.B {
			return a
		}
		return b
	}
	if a == b {
		return a
	}
	if a.Sort == SBool {
		return mkOr(mkAnd(c, a), mkAnd(mkNot(c), b))
	}
	return intern(&Term{Op: "ite", Args: []*Term{c, a, b}, Sort: a.Sort})
}

func mkStrLt(a, b *Term) *Term {
	if a == b {
		return tFalse
	}
	if a.Op == "cs" && b.Op == "cs" {
		return mkBool(a.S < b.S)
	}
	// decide on distinct concrete prefixes
	fa, fb := catAtoms(a)[0], catAtoms(b)[0]
	if fa.Op == "cs" && fb.Op == "cs" {
		n := len(fa.S)
		if len(fb.S) < n {
			n = len(fb.S)
		}
		for i := 0; i < n; i++ {
			if fa.S[i] != fb.S[i] {
				return mkBool(fa.S[i] < fb.S[i])
			}
		}
	}
	return intern(&Term{Op: "str.<", Args: []*Term{a, b}, Sort: SBool})
}

func mkStrLen(a *Term) *Term {
	if a.Op == "cs" {
		return mkInt(int64(len(a.S)))
	}
	return intern(&Term{Op: "str.len", Args: []*Term{a}, Sort: SInt})
}

func mkStrOp(op string, sort Sort, args ...*Term) *Term {
	return intern(&Term{Op: op, Args: args, Sort: sort})
}

func mkPrefixOf(pre, s *Term) *Term {
	if pre.Op == "cs" && s.Op == "cs" {
		return mkBool(strings.HasPrefix(s.S, pre.S))
	}
	if pre.Op == "cs" && pre.S == "" {
		return tTrue
	}
	if pre.Op == "cs" {
		if f := catAtoms(s)[0]; f.Op == "cs" {
			n := len(f.S)
			if len(pre.S) <= n {
				return mkBool(strings.HasPrefix(f.S, pre.S))
			}
			if !strings.HasPrefix(pre.S, f.S) {
				return tFalse
			}
		}
	}
	return mkStrOp("str.prefixof", SBool, pre, s)
}

func mkSuffixOf(suf, s *Term) *Term {
	if suf.Op == "cs" && s.Op == "cs" {
		return mkBool(strings.HasSuffix(s.S, suf.S))
	}
	if suf.Op == "cs" && suf.S == "" {
		return tTrue
	}
	return mkStrOp("str.suffixof", SBool, suf, s)
}

func mkContains(s, sub *Term) *Term {
	if sub.Op == "cs" && s.Op == "cs" {
		return mkBool(strings.Contains(s.S, sub.S))
	}
	if sub.Op == "cs" && sub.S == "" {
		return tTrue
	}
	if sub.Op == "cs" {
		for _, a := range catAtoms(s) {
			if a.Op == "cs" && strings.Contains(a.S, sub.S) {
				return tTrue
			}
		}
	}
	return mkStrOp("str.contains", SBool, s, sub)
}

func mkIntCmp(op string, a, b *Term) *Term {
	if a.Op == "ci" && b.Op == "ci" {
		switch op {
		case "<":
			return mkBool(a.I < b.I)
		case "<=":
			return mkBool(a.I <= b.I)
		case ">":
			return mkBool(a.I > b.I)
		case ">=":
			return mkBool(a.I >= b.I)
		}
	}
	if a == b {
		return mkBool(op == "<=" || op == ">=")
	}
	// normalise to < and <=
	switch op {
	case ">":
		op, a, b = "<", b, a
	case ">=":
		op, a, b = "<=", b, a
	}
	// len(x) >= 0 etc.
	if op == "<=" && a.Op == "ci" && a.I <= 0 && b.Op == "str.len" {
		return tTrue
	}
	if op == "<" && b.Op == "ci" && b.I <= 0 && a.Op == "str.len" {
		return tFalse
	}
	return intern(&Term{Op: op, Args: []*Term{a, b}, Sort: SBool})
}

func mkArith(op string, a, b *Term) *Term {
	if a.Op == "ci" && b.Op == "ci" {
		switch op {
		case "+":
			return mkInt(a.I + b.I)
		case "-":
			return mkInt(a.I - b.I)
		case "*":
			return mkInt(a.I * b.I)
		case "div":
			if b.I > 0 { // SMT div is floor for positive divisor
				q := a.I / b.I
				if a.I%b.I < 0 {
					q--
				}
				return mkInt(q)
			}
		case "mod":
			if b.I > 0 {
				r := a.I % b.I
				if r < 0 {
					r += b.I
				}
				return mkInt(r)
			}
		}
	}
	if b.Op == "ci" && b.I == 0 && (op == "+" || op == "-") {
		return a
	}
	// (x + c1) + c2 = x + (c1 + c2); (x + c1) - c2 likewise
	if b.Op == "ci" && (op == "+" || op == "-") && a.Op == "+" && a.Args[1].Op == "ci" {
		c := a.Args[1].I
		if op == "+" {
			c += b.I
		} else {
			c -= b.I
		}
		return mkArith("+", a.Args[0], mkInt(c))
	}
	if b.Op == "ci" && op == "-" {
		return mkArith("+", a, mkInt(-b.I))
	}
	if a.Op == "ci" && a.I == 0 && op == "+" {
		return b
	}
	return intern(&Term{Op: op, Args: []*Term{a, b}, Sort: SInt})
}

func mkFromInt(a *Term) *Term {
	if a.Op == "ci" {
		return mkStr(fmt.Sprint(a.I))
	}
	// str.from_int is "" for negatives; Go prints "-n".
	neg := mkIntCmp("<", a, mkInt(0))
	pos := intern(&Term{Op: "str.from_int", Args: []*Term{a}, Sort: SStr})
	negs := mkConcat(mkStr("-"), intern(&Term{Op: "str.from_int", Args: []*Term{mkArith("-", mkInt(0), a)}, Sort: SStr}))
	return mkIte(neg, negs, pos)
}

// mkRaw is a literal SMT-LIB fragment (regular expressions).
func mkRaw(text string) *Term { return intern(&Term{Op: "raw", Name: text, Sort: SStr}) }

func mkUF(name string, sort Sort, args ...*Term) *Term {
	return intern(&Term{Op: "uf", Name: name, Args: args, Sort: sort})
}

func smtString(s string) string {
	var sb strings.Builder
	sb.WriteByte('"')
	for _, r := range s { // code points
		switch {
		case r == '"':
			sb.WriteString(`""`)
		case r < 0x20 || r > 0x7e || r == '\\':
			sb.WriteString(fmt.Sprintf("\\u{%x}", r))
		default:
			sb.WriteRune(r)
		}
	}
	sb.WriteByte('"')
	return sb.String()
}

func (t *Term) smt() string {
	var sb strings.Builder
	t.writeSMT(&sb)
	return sb.String()
}

func (t *Term) writeSMT(sb *strings.Builder) {
	switch t.Op {
	case "var":
		sb.WriteString(t.Name)
		return
	case "cs":
		sb.WriteString(smtString(t.S))
		return
	case "ci":
		if t.I < 0 {
			fmt.Fprintf(sb, "(- %d)", -t.I)
		} else {
			fmt.Fprint(sb, t.I)
		}
		return
	case "cb":
		fmt.Fprint(sb, t.B)
		return
	case "raw":
		sb.WriteString(t.Name)
		return
	}
	sb.WriteByte('(')
	if t.Op == "uf" {
		sb.WriteString(t.Name)
	} else {
		sb.WriteString(t.Op)
	}
	for _, a := range t.Args {
		sb.WriteByte(' ')
		a.writeSMT(sb)
	}
	sb.WriteByte(')')
}

// ufs collects uninterpreted functions used in t.
func (t *Term) ufs(into map[string]*Term) {
	if t.Op == "uf" {
		into[t.Name] = t
	}
	for _, a := range t.Args {
		a.ufs(into)
	}
}

func (t *Term) hasVars() bool { return len(t.vs) > 0 }

// parseSMTString decodes an SMT-LIB 2.6 string literal (with surrounding quotes).
func parseSMTString(lit string) string {
	lit = strings.TrimSpace(lit)
	if len(lit) >= 2 && lit[0] == '"' && lit[len(lit)-1] == '"' {
		lit = lit[1 : len(lit)-1]
	}
	lit = strings.ReplaceAll(lit, `""`, `"`)
	var sb strings.Builder
	for i := 0; i < len(lit); {
		if lit[i] == '\\' && i+1 < len(lit) && lit[i+1] == 'u' {
			// \u{X..} or \uXXXX
			if i+2 < len(lit) && lit[i+2] == '{' {
				j := strings.IndexByte(lit[i:], '}')
				if j > 0 {
					var cp int
					fmt.Sscanf(lit[i+3:i+j], "%x", &cp)
					sb.WriteRune(rune(cp))
					i += j + 1
					continue
				}
			} else if i+6 <= len(lit) {
				var cp int
				if _, err := fmt.Sscanf(lit[i+2:i+6], "%x", &cp); err == nil {
					sb.WriteRune(rune(cp))
					i += 6
					continue
				}
			}
		}
		if lit[i] == '\\' && i+1 < len(lit) && lit[i+1] == 'x' && i+4 <= len(lit) { // z3 4.8 style \xNN
			var cp int
			if _, err := fmt.Sscanf(lit[i+2:i+4], "%x", &cp); err == nil {
				sb.WriteRune(rune(cp))
				i += 4
				continue
			}
		}
		sb.WriteByte(lit[i])
		i++
	}
	return sb.String()
}
