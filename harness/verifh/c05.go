package verifh

import (
	rt "github.com/protobom/protobom/internal/verifrt"
	"github.com/protobom/protobom/pkg/formats"
	"github.com/protobom/protobom/pkg/reader"
	"github.com/protobom/protobom/pkg/sbom"
)

// C05: parsed graphs are closed, identifiers unique / reproducible / identifier-safe; parsing is deterministic and
// independent of auto-detection; the public identifier generator is total, safe and deterministic.

const idSafe = "abcdefghijklmnopqrstuvwxyzABCDEFGHIJKLMNOPQRSTUVWXYZ0123456789.-"

// H_C05_Generator: seeds of up to K symbolic characters (code points up to the solvers' alphabet bound) plus an
// optional known prefix word.
func H_C05_Generator() {
	k := rt.NondetLen("seedlen", rt.Bound("K", 2, 3))
	var codes []int
	for i := 0; i < k; i++ {
		c := rt.NondetInt("char", 0, 0x2FFFF)
		rt.Assume(c < 0xD800 || c > 0xDFFF) // surrogates are not characters of a Go string
		codes = append(codes, c)
	}
	seed := rt.StrFromCodes(codes...)
	var args []string
	switch rt.NondetChoice("shape", 3) {
	case 0:
		args = []string{seed}
	case 1:
		args = []string{"auto", seed}
	default:
		args = []string{seed, "second"}
	}
	a := sbom.NewNodeIdentifier(args...)
	b := sbom.NewNodeIdentifier(args...)
	rt.Assert(a != "", "C05.gen.nonempty")
	rt.Assert(rt.StrOver(a, idSafe), "C05.gen.alphabet")
	rt.Assert(rt.StrHasPrefix(a, "protobom-"), "C05.gen.prefix")
	// a usable seed (any non-empty text, or a second constant seed) makes the result reproducible
	if k > 0 || len(args) == 2 && args[1] == "second" {
		rt.Assert(a == b, "C05.gen.deterministic")
	}
}

type parsed struct {
	ids   []string
	roots []string
	edges []*sbom.Edge
	ok    bool
}

func c05parse(s *rt.Stream, explicit formats.Format) parsed {
	s.Rewind()
	var doc *sbom.Document
	var err error
	if explicit == "" {
		doc, err = reader.New().ParseStream(s)
	} else {
		doc, err = reader.New().ParseStreamWithOptions(s, &reader.Options{Format: explicit})
	}
	if err != nil || doc == nil || doc.NodeList == nil {
		return parsed{}
	}
	p := parsed{ok: true, roots: doc.NodeList.RootElements, edges: doc.NodeList.Edges}
	for _, n := range doc.NodeList.Nodes {
		p.ids = append(p.ids, n.Id)
	}
	return p
}

// sameParse: identical identifiers (in order), roots and edges.
func sameParse(a, b parsed) bool {
	if a.ok != b.ok || len(a.ids) != len(b.ids) || len(a.roots) != len(b.roots) || len(a.edges) != len(b.edges) {
		return false
	}
	ok := true
	for i := range a.ids {
		ok = rt.And(ok, a.ids[i] == b.ids[i])
	}
	for i := range a.roots {
		ok = rt.And(ok, a.roots[i] == b.roots[i])
	}
	for i := range a.edges {
		if len(a.edges[i].To) != len(b.edges[i].To) {
			return false
		}
		ok = rt.And(ok, a.edges[i].From == b.edges[i].From, a.edges[i].Type == b.edges[i].Type)
		for j := range a.edges[i].To {
			ok = rt.And(ok, a.edges[i].To[j] == b.edges[i].To[j])
		}
	}
	return ok
}

func closed(p parsed) bool {
	ok := true
	for _, r := range p.roots {
		ok = rt.And(ok, rt.StrIn(r, p.ids))
	}
	for _, e := range p.edges {
		ok = rt.And(ok, rt.StrIn(e.From, p.ids))
		for _, t := range e.To {
			ok = rt.And(ok, rt.StrIn(t, p.ids))
		}
	}
	return ok
}

func nonEmptyIDs(p parsed) bool {
	ok := true
	for _, id := range p.ids {
		ok = rt.And(ok, id != "")
	}
	return ok
}

// layoutAndFormat: the same value behind leading white space, parsed with auto-detection, and parsed with the format
// stated explicitly, must give what the first parse gave.
func c05variants(mk func() *rt.Stream, first parsed, explicit formats.Format, site string) {
	rt.Assert(sameParse(first, c05parse(mk(), "")), site+".twice")
	rt.Assert(sameParse(first, c05parse(mk(), explicit)), site+".explicit")
	s := mk()
	b := rt.NondetInt("firstbyte", 9, 123)
	rt.Assume(rt.Or(b == 9, b == 10, b == 13, b == 32, b == 123))
	s.SetLayoutFirstByte(b)
	rt.Assert(sameParse(first, c05parse(s, "")), site+".layout")
}

// H_C05_CDX: up to N components in a decision-chosen nesting (under the metadata component, at top level, or inside an
// earlier component); each has a symbolic reference (equalities between references are the solver's) or none.
func H_C05_CDX()         { c05cdx(rt.Bound("N", 3, 4), false) }
func H_C05_CDXVariants() { c05cdx(rt.Bound("NV", 2, 3), true) }

func c05cdx(maxN int, variants bool) {
	n := 1 + rt.NondetLen("n", maxN-1)
	version := []string{"1.5", "1.4", "1.3"}[rt.NondetChoice("version", 3)]
	comps := make([]*rt.J, n)
	var refs []string
	refless := 0
	for i := 0; i < n; i++ {
		c := jObj(jm{"type", jStr("library")}, jm{"name", jStr("c")})
		if rt.NondetChoice("hasref", 2) == 1 {
			r := rt.NondetString("ref")
			rt.Assume(rt.StrPlain(r)) // not empty, not in the reserved "protobom-" namespace
			refs = append(refs, r)
			c.Keys = append(c.Keys, "bom-ref")
			c.Items = append(c.Items, jStr(r))
		} else {
			refless++
		}
		comps[i] = c
	}
	hasMeta := rt.NondetChoice("hasmetadatacomponent", 2) == 1
	var top []*rt.J
	for i := n - 1; i >= 0; i-- { // children are attached before their parents are placed
		if i == 0 && hasMeta {
			continue
		}
		lo := 0
		if !hasMeta {
			lo = -1
		}
		_ = lo
		parent := -1 // top level
		if i > 0 {
			parent = rt.NondetChoice("parent", i+1) - 1 // -1 = top level, otherwise an earlier component
			if parent == 0 && hasMeta {
				parent = -1 // the metadata component's children are the top level components
			}
		}
		if parent < 0 {
			top = append([]*rt.J{comps[i]}, top...)
			continue
		}
		pc := comps[parent]
		sub := jGet(pc, "components")
		if sub == nil {
			sub = jArr()
			pc.Keys = append(pc.Keys, "components")
			pc.Items = append(pc.Items, sub)
		}
		sub.Items = append([]*rt.J{comps[i]}, sub.Items...)
	}
	var md *rt.J
	if hasMeta {
		md = jObj(jm{"component", comps[0]})
	}
	doc := jObj(jm{"bomFormat", jStr("CycloneDX")}, jm{"specVersion", jStr(version)}, jm{"version", jNum(1)}, jm{"metadata", md}, jm{"components", jArr(top...)})
	mk := func() *rt.Stream { return rt.NewJSONStream(doc) }
	p := c05parse(mk(), "")
	if !p.ok {
		// auto-detection equals the explicit format also in refusing: a document the stated format parses must not
		// be refused when detected
		if variants {
			explicit := map[string]formats.Format{"1.5": formats.CDX15JSON, "1.4": formats.CDX14JSON, "1.3": formats.CDX13JSON}[version]
			rt.Assert(!c05parse(mk(), explicit).ok, "C05.cdx.explicit")
		}
		return
	}
	rt.Assert(nonEmptyIDs(p), "C05.cdx.nonempty")
	rt.Assert(closed(p), "C05.cdx.closed")
	// every input reference is a node; every other node carries a generated identifier: safe alphabet, pairwise distinct
	have := true
	for _, r := range refs {
		have = rt.And(have, rt.StrIn(r, p.ids))
	}
	rt.Assert(have, "C05.cdx.refskept")
	var generated []string
	for _, id := range p.ids {
		if rt.StrIn(id, refs) {
			continue
		}
		generated = append(generated, id)
	}
	gok := len(generated) == refless
	for _, g := range generated {
		gok = rt.And(gok, rt.StrOver(g, idSafe), rt.StrHasPrefix(g, "protobom-"))
	}
	rt.Assert(rt.And(gok, rt.StrsDistinct(generated)), "C05.cdx.generated")
	if rt.StrsDistinct(refs) {
		rt.Assert(rt.And(len(p.ids) == n, rt.StrsDistinct(p.ids)), "C05.cdx.unique")
	}
	if variants {
		explicit := map[string]formats.Format{"1.5": formats.CDX15JSON, "1.4": formats.CDX14JSON, "1.3": formats.CDX13JSON}[version]
		c05variants(mk, p, explicit, "C05.cdx")
	}
}

// H_C05_SPDX: up to N packages/files with symbolic element ids, relationships whose endpoints are element ids chosen by
// decision (or a dangling one), roots through documentDescribes and through DESCRIBES relationships.
func H_C05_SPDX()         { c05spdx(rt.Bound("N", 2, 3), rt.Bound("R", 2, 3), false) }
func H_C05_SPDXVariants() { c05spdx(2, rt.Bound("RV", 1, 2), true) }

func c05spdx(maxN, maxR int, variants bool) {
	n := 1 + rt.NondetLen("n", maxN-1)
	var ids []string
	var pkgs, files []*rt.J
	for i := 0; i < n; i++ {
		id := rt.NondetString("id")
		rt.Assume(rt.StrPlain(id))
		ids = append(ids, id)
		if i == n-1 && rt.NondetChoice("isfile", 2) == 1 {
			files = append(files, jObj(jm{"SPDXID", jStr("SPDXRef-" + id)}, jm{"fileName", jStr("f")}))
		} else {
			pkgs = append(pkgs, jObj(jm{"SPDXID", jStr("SPDXRef-" + id)}, jm{"name", jStr("p")}, jm{"downloadLocation", jStr("NOASSERTION")}))
		}
	}
	resolve := true
	pick := func(name string, mayDangle bool) string {
		k := 0
		if mayDangle {
			k = rt.NondetChoice(name, n+1)
		} else {
			k = rt.NondetChoice(name, n)
		}
		if k == n {
			resolve = false
			return "SPDXRef-Dangling"
		}
		return "SPDXRef-" + ids[k]
	}
	var rels []*rt.J
	nrel := rt.NondetLen("nrel", maxR)
	for i := 0; i < nrel; i++ {
		typ := []string{"CONTAINS", "DESCRIBES", "DEPENDS_ON"}[rt.NondetChoice("reltype", rt.Bound("RT", 2, 3))]
		from := "SPDXRef-DOCUMENT"
		if typ != "DESCRIBES" {
			from = pick("from", false)
		}
		rels = append(rels, jObj(jm{"spdxElementId", jStr(from)}, jm{"relationshipType", jStr(typ)}, jm{"relatedSpdxElement", jStr(pick("to", i == nrel-1))}))
	}
	var describes *rt.J
	if rt.NondetChoice("describes", 2) == 1 {
		describes = jArr(jStr(pick("described", false)))
	}
	doc := jObj(jm{"spdxVersion", jStr("SPDX-2.3")}, jm{"dataLicense", jStr("CC0-1.0")}, jm{"SPDXID", jStr("SPDXRef-DOCUMENT")}, jm{"name", jStr("doc")},
		jm{"documentNamespace", jStr("https://example.com/doc")}, jm{"documentDescribes", describes},
		jm{"packages", jArr(pkgs...)}, jm{"files", jArr(files...)}, jm{"relationships", jArr(rels...)})
	mk := func() *rt.Stream { return rt.NewJSONStream(doc) }
	p := c05parse(mk(), "")
	if !p.ok {
		return
	}
	rt.Assert(nonEmptyIDs(p), "C05.spdx.nonempty")
	if resolve {
		rt.Assert(closed(p), "C05.spdx.closed")
	}
	rt.Assert(rt.And(len(p.ids) == n, rt.StrSetEq(p.ids, ids)), "C05.spdx.idset")
	if rt.StrsDistinct(ids) {
		rt.Assert(rt.StrsDistinct(p.ids), "C05.spdx.unique")
	}
	if variants {
		c05variants(mk, p, formats.SPDX23JSON, "C05.spdx")
	}
}

// H_C05_ReusedReader: auto-detection equals the explicit format also for a reader that has parsed something else
// before (a CycloneDX document, then an SPDX one, or the other way round).
func H_C05_ReusedReader() {
	cdx := jObj(jm{"bomFormat", jStr("CycloneDX")}, jm{"specVersion", jStr("1.5")}, jm{"version", jNum(1)},
		jm{"metadata", jObj(jm{"component", jObj(jm{"type", jStr("library")}, jm{"name", jStr("c")}, jm{"bom-ref", jStr("root")})})},
		jm{"components", jArr(jObj(jm{"type", jStr("library")}, jm{"name", jStr("d")}))})
	id := rt.NondetString("id")
	rt.Assume(rt.StrPlain(id))
	spdxd := jObj(jm{"spdxVersion", jStr("SPDX-2.3")}, jm{"dataLicense", jStr("CC0-1.0")}, jm{"SPDXID", jStr("SPDXRef-DOCUMENT")}, jm{"name", jStr("doc")},
		jm{"documentNamespace", jStr("https://example.com/doc")}, jm{"documentDescribes", jArr(jStr("SPDXRef-" + id))},
		jm{"packages", jArr(jObj(jm{"SPDXID", jStr("SPDXRef-" + id)}, jm{"name", jStr("p")}, jm{"downloadLocation", jStr("NOASSERTION")}))})
	docs := []*rt.J{cdx, spdxd}
	fmts := []formats.Format{formats.CDX15JSON, formats.SPDX23JSON}
	k := rt.NondetChoice("firstformat", 2)
	r := reader.New()
	if _, err := r.ParseStream(rt.NewJSONStream(docs[k])); err != nil {
		rt.Assert(false, "C05.reused.first")
		return
	}
	// the second document, through the same reader with auto-detection and through a fresh reader with the format stated
	second, err := r.ParseStream(rt.NewJSONStream(docs[1-k]))
	explicit := c05parse(rt.NewJSONStream(docs[1-k]), fmts[1-k])
	if err != nil || second == nil || second.NodeList == nil || !explicit.ok {
		rt.Assert(false, "C05.reused.second")
		return
	}
	p := parsed{ok: true, roots: second.NodeList.RootElements, edges: second.NodeList.Edges}
	for _, n := range second.NodeList.Nodes {
		p.ids = append(p.ids, n.Id)
	}
	rt.Assert(sameParse(p, explicit), "C05.reused.sameasexplicit")
}
