package verifh

import (
	rt "github.com/protobom/protobom/internal/verifrt"
	"github.com/protobom/protobom/pkg/sbom"
)

// C09: union laws and attribute precedence. Operands may be ill-formed: endpoints and roots are unconstrained
// symbolic strings (dangling, repeated (source,type), overlapping roots all arise as equality patterns).

func c09operand(p string) *sbom.NodeList {
	n := rt.Bound("N", 2, 2)
	e := rt.Bound("E", 1, 1)
	t := rt.Bound("T", 1, 2)
	r := rt.Bound("R", 1, 1)
	return mkList(p, 0, n, e, t, r, 2)
}

// present: id names a node of nl.
func present(nl *sbom.NodeList, id string) bool { return rt.StrIn(id, ids(nl)) }

// unionExact: r has exactly the nodes and roots of a and b and, restricted to r's nodes, their typed edges.
func unionExact(r, a, b *sbom.NodeList, site string) {
	ir := ids(r)
	nodes := rt.And(rt.StrSubset(ids(a), ir), rt.StrSubset(ids(b), ir))
	for _, x := range ir {
		nodes = rt.And(nodes, rt.Or(present(a, x), present(b, x)))
	}
	rt.Assert(nodes, site+".nodes")
	roots := rt.And(rt.StrSubset(a.RootElements, r.RootElements), rt.StrSubset(b.RootElements, r.RootElements))
	for _, x := range r.RootElements {
		roots = rt.And(roots, rt.Or(rt.StrIn(x, a.RootElements), rt.StrIn(x, b.RootElements)))
	}
	rt.Assert(roots, site+".roots")
	edges := true
	for _, e := range r.Edges {
		edges = rt.And(edges, present(r, e.From))
		for _, to := range e.To {
			edges = rt.And(edges, present(r, to), rt.Or(hasTriple(a, e.From, e.Type, to), hasTriple(b, e.From, e.Type, to)))
		}
	}
	for _, src := range []*sbom.NodeList{a, b} {
		for _, e := range src.Edges {
			for _, to := range e.To {
				edges = rt.And(edges, rt.Implies(rt.And(present(r, e.From), present(r, to)), hasTriple(r, e.From, e.Type, to)))
			}
		}
	}
	rt.Assert(edges, site+".edges")
}

// sameSets: x and y have the same node ids, roots and (restricted to present nodes) typed edges.
func sameSets(x, y *sbom.NodeList) bool {
	ok := rt.And(rt.StrSetEq(ids(x), ids(y)), rt.StrSetEq(x.RootElements, y.RootElements))
	for _, p := range [][2]*sbom.NodeList{{x, y}, {y, x}} {
		for _, e := range p[0].Edges {
			for _, to := range e.To {
				ok = rt.And(ok, rt.Implies(rt.And(present(p[0], e.From), present(p[0], to)), hasTriple(p[1], e.From, e.Type, to)))
			}
		}
	}
	return ok
}

func H_C09_Exact() {
	a := c09operand("a")
	b := c09operand("b")
	sa, sb := cloneList(a), cloneList(b)
	r := a.Union(b)
	unionExact(r, sa, sb, "C09.union")
}

func H_C09_AddExact() {
	a := c09operand("a")
	b := c09operand("b")
	sa, sb := cloneList(a), cloneList(b)
	a.Add(b)
	unionExact(a, sa, sb, "C09.add")
}

func H_C09_Laws() {
	a := c09operand("a")
	b := c09operand("b")
	rt.Assert(sameSets(a.Union(a), a.Union(sbom.NewNodeList())), "C09.law.idempotent")
	rt.Assert(sameSets(a.Union(b), b.Union(a)), "C09.law.commutative")
	// identity: the empty list on either side changes none of the sets (edges restricted to present nodes)
	e := sbom.NewNodeList()
	ae := a.Union(e)
	ea := e.Union(a)
	rt.Assert(rt.And(rt.StrSetEq(ids(ae), ids(a)), rt.StrSetEq(ae.RootElements, a.RootElements), sameSets(ae, ea)), "C09.law.identity")
}

// Associativity on the three sets. Edge endpoints are assumed to resolve inside the operand that carries the edge:
// with a dangling endpoint that a *third* operand resolves, exactness itself (edges restricted to present nodes)
// makes (a∪b)∪c and a∪(b∪c) differ, so that case is outside what the law can mean.
func H_C09_Assoc() {
	n := rt.Bound("NA", 1, 2)
	a := mkList("a", 0, n, 1, 1, 1, 2)
	b := mkList("b", 0, n, 1, 1, 1, 2)
	c := mkList("c", 0, 1, 1, 1, 1, 2)
	for _, x := range []*sbom.NodeList{a, b, c} {
		closed := true
		for _, e := range x.Edges {
			closed = rt.And(closed, present(x, e.From))
			for _, to := range e.To {
				closed = rt.And(closed, present(x, to))
			}
		}
		rt.Assume(closed)
	}
	l := a.Union(b).Union(c)
	r := a.Union(b.Union(c))
	rt.Assert(sameSets(l, r), "C09.law.associative")
}

// precedence: for a node present in both operands every attribute is the second operand's when that is
// non-empty and the first's otherwise (Union); the receiver's when non-empty and the argument's otherwise (Add).
func c09attr(inPlace bool) {
	// Id and Type (the node kind) are the node's identity: the repository's own tests state "ID and node type
	// should never change", so they are asserted to stay the receiver's / first operand's.
	f := 2 + rt.NondetChoice("field", numNodeFields-2)
	k := rt.Bound("K", 1, 2)
	na := sentinelNode("n", "a")
	nb := sentinelNode("n", "b")
	fillField(na, f, "a", k)
	fillField(nb, f, "b", k)
	fillField(na, fType, "a", k)
	fillField(nb, fType, "b", k)
	a := &sbom.NodeList{Nodes: []*sbom.Node{na}}
	b := &sbom.NodeList{Nodes: []*sbom.Node{nb}}
	wantA, wantB := cloneNode(na), cloneNode(nb)
	var res *sbom.Node
	site := "C09.attr."
	if inPlace {
		a.Add(b)
		site = "C09.add.attr."
	} else {
		a = a.Union(b)
	}
	if len(a.Nodes) != 1 {
		rt.Assert(false, site+"onenode")
		return
	}
	res = a.Nodes[0]
	rt.Assert(rt.And(res.Id == wantA.Id, res.Type == wantA.Type), site+"identity")
	for g := 2; g < numNodeFields; g++ {
		var ok bool
		if inPlace {
			ok = rt.Or(rt.And(rt.Not(fieldEmpty(wantA, g)), fieldEq(res, wantA, g)), rt.And(fieldEmpty(wantA, g), fieldEq(res, wantB, g)))
		} else {
			ok = rt.Or(rt.And(rt.Not(fieldEmpty(wantB, g)), fieldEq(res, wantB, g)), rt.And(fieldEmpty(wantB, g), fieldEq(res, wantA, g)))
		}
		rt.Assert(ok, site+nodeFieldNames[g])
	}
}

func H_C09_Attr()    { c09attr(false) }
func H_C09_AddAttr() { c09attr(true) }

// H_C09_Triple: exactness is a statement about the returned list, so it must still hold after the same receiver has
// been used in a later union / add with a third list (the receiver's slices have spare capacity, as lists built with
// AddRootNode / AddEdge do).
func H_C09_Triple() {
	a := c12hist("a", "n0")
	b := c12hist("b", []string{"n0", "n1"}[rt.NondetChoice("bshares", 2)])
	c := c12hist("c", []string{"n0", "n2"}[rt.NondetChoice("cshares", 2)])
	sa, sb, sc := cloneList(a), cloneList(b), cloneList(c)
	ab := a.Union(b)
	ac := a.Union(c)
	unionExact(ab, sa, sb, "C09.triple.first")
	unionExact(ac, sa, sc, "C09.triple.second")
	a.Add(c)
	unionExact(ab, sa, sb, "C09.triple.afteradd")
}
