package verifh

import (
	"io"

	rt "github.com/protobom/protobom/internal/verifrt"
	"github.com/protobom/protobom/pkg/formats"
	"github.com/protobom/protobom/pkg/native"
	"github.com/protobom/protobom/pkg/reader"
	"github.com/protobom/protobom/pkg/sbom"
	"github.com/protobom/protobom/pkg/storage"
	"github.com/protobom/protobom/pkg/writer"
)

// C18: the configuration of a reader / writer is a function of the library defaults and of the options given to its
// own constructor. A history of constructor calls (each with a decision-chosen option and symbolic option values) is
// executed from the package's initial state; afterwards every instance built so far is compared with the function
// of (defaults, own options).

type wrec struct {
	w       *writer.Writer
	kind    int
	format  formats.Format
	ro      *native.RenderOptions
	so      *native.SerializeOptions
	sto     *storage.StoreOptions
	fkey    string
	fval    string
}

const defaultIndent = 4

func H_C18_WriterHistory() {
	p := rt.Bound("P", 3, 3)
	var recs []*wrec
	for i := 0; i < p; i++ {
		r := &wrec{kind: rt.NondetChoice("option", 6)}
		switch r.kind {
		case 0:
			r.w = writer.New()
		case 1:
			r.format = formats.Format(rt.NondetString("format"))
			r.w = writer.New(writer.WithFormat(r.format))
		case 2:
			r.ro = &native.RenderOptions{Indent: rt.NondetInt("indent", 0, 16)}
			r.w = writer.New(writer.WithRenderOptions(r.ro))
		case 3:
			r.so = &native.SerializeOptions{}
			r.w = writer.New(writer.WithSerializeOptions(r.so))
		case 4:
			r.sto = &storage.StoreOptions{NoClobber: rt.NondetBool("noclobber")}
			r.w = writer.New(writer.WithStoreOptions(r.sto))
		case 5:
			r.fkey, r.fval = "driver-"+rt.NondetString("fkey"), rt.NondetString("fval")
			r.w = writer.New(writer.WithFormatOptions(r.fkey, r.fval))
		}
		recs = append(recs, r)
	}
	for i, r := range recs {
		o := r.w.Options
		if o == nil || o.RenderOptions == nil || o.SerializeOptions == nil || o.StoreOptions == nil {
			rt.Assert(false, "C18.writer.shape")
			return
		}
		rt.Assert(o.Format == r.format, "C18.writer.Format")
		wantIndent := defaultIndent
		if r.ro != nil {
			rt.Assert(o.RenderOptions == r.ro, "C18.writer.RenderOptions.own")
		} else {
			rt.Assert(o.RenderOptions.Indent == wantIndent, "C18.writer.RenderOptions.default")
		}
		if r.sto != nil {
			rt.Assert(o.StoreOptions == r.sto, "C18.writer.StoreOptions.own")
		} else {
			rt.Assert(!o.StoreOptions.NoClobber, "C18.writer.StoreOptions.default")
		}
		// format options: the own entry is there, and no other instance's entry is
		for j, q := range recs {
			if q.fkey == "" {
				continue
			}
			got := o.GetFormatOptions(q.fkey)
			if i == j {
				rt.Assert(got != nil && got.(string) == q.fval, "C18.writer.formatOptions.own")
			} else {
				rt.Assert(rt.Implies(q.fkey != r.fkey, got == nil), "C18.writer.formatOptions.foreign")
			}
		}
		// no two instances share option objects they were not both given
		for j, q := range recs {
			if j <= i {
				continue
			}
			rt.Assert(r.w.Options != q.w.Options, "C18.writer.sharedOptions")
		}
	}
}

type rrec struct {
	r    *reader.Reader
	kind int
	uo   *native.UnserializeOptions
	ro   *storage.RetrieveOptions
	fkey string
	fval string
}

func H_C18_ReaderHistory() {
	p := rt.Bound("P", 3, 3)
	var recs []*rrec
	for i := 0; i < p; i++ {
		r := &rrec{kind: rt.NondetChoice("option", 4)}
		switch r.kind {
		case 0:
			r.r = reader.New()
		case 1:
			r.uo = &native.UnserializeOptions{}
			r.r = reader.New(reader.WithUnserializeOptions(r.uo))
		case 2:
			r.ro = &storage.RetrieveOptions{}
			r.r = reader.New(reader.WithRetrieveOptions(r.ro))
		case 3:
			r.fkey, r.fval = "driver-"+rt.NondetString("fkey"), rt.NondetString("fval")
			r.r = reader.New(reader.WithFormatOptions(r.fkey, r.fval))
		}
		recs = append(recs, r)
	}
	for i, r := range recs {
		o := r.r.Options
		if o == nil {
			rt.Assert(false, "C18.reader.shape")
			return
		}
		rt.Assert(o.Format == "", "C18.reader.Format")
		// UnserializeOptions and RetrieveOptions are empty structs: Go gives no identity to pointers to zero-size
		// values, so only presence is observable
		rt.Assert(o.UnserializeOptions != nil, "C18.reader.UnserializeOptions.present")
		rt.Assert((o.RetrieveOptions != nil) == (r.ro != nil), "C18.reader.RetrieveOptions.default")
		for j, q := range recs {
			if q.fkey == "" {
				continue
			}
			got := o.GetFormatOptions(q.fkey)
			if i == j {
				rt.Assert(got != nil && got.(string) == q.fval, "C18.reader.formatOptions.own")
			} else {
				rt.Assert(rt.Implies(q.fkey != r.fkey, got == nil), "C18.reader.formatOptions.foreign")
			}
		}
		for j, q := range recs {
			if j > i {
				rt.Assert(r.r.Options != q.r.Options, "C18.reader.sharedOptions")
			}
		}
	}
}

// ---- per-call options: observed through recording drivers registered for a symbolic format

type recSerializer struct {
	serOpts    *native.SerializeOptions
	serFormat  interface{}
	renderOpts *native.RenderOptions
	renFormat  interface{}
	calls      int
}

func (s *recSerializer) Serialize(_ *sbom.Document, so *native.SerializeOptions, fo interface{}) (interface{}, error) {
	s.serOpts, s.serFormat = so, fo
	s.calls++
	return "native", nil
}

func (s *recSerializer) Render(_ interface{}, _ io.Writer, ro *native.RenderOptions, fo interface{}) error {
	s.renderOpts, s.renFormat = ro, fo
	return nil
}

type nopWC struct{}

func (nopWC) Write(p []byte) (int, error) { return len(p), nil }
func (nopWC) Close() error                { return nil }

func H_C18_WriterPerCall() {
	instFmt := formats.Format("x-inst-" + rt.NondetString("instfmt"))
	callFmt := formats.Format("x-call-" + rt.NondetString("callfmt"))
	instSer, callSer := &recSerializer{}, &recSerializer{}
	writer.RegisterSerializer(instFmt, instSer)
	writer.RegisterSerializer(callFmt, callSer)
	key := "*verifh.recSerializer"
	instRO := &native.RenderOptions{Indent: rt.NondetInt("instindent", 0, 16)}
	w := writer.New(writer.WithFormat(instFmt), writer.WithRenderOptions(instRO), writer.WithFormatOptions(key, "inst-"+rt.NondetString("instfo")))
	before := *w.Options
	beforeIndent := w.Options.RenderOptions.Indent
	callRO := &native.RenderOptions{Indent: rt.NondetInt("callindent", 0, 16)}
	callSO := &native.SerializeOptions{}
	o := &writer.Options{RenderOptions: callRO, SerializeOptions: callSO}
	useCallFormat := rt.NondetChoice("callformat", 2) == 1
	if useCallFormat {
		o.Format = callFmt
	}
	callFO := "call-" + rt.NondetString("callfo")
	o.SetFormatOptions(key, callFO)
	err := w.WriteStreamWithOptions(&sbom.Document{}, nopWC{}, o)
	rt.Assert(err == nil, "C18.percall.noerror")
	used := instSer
	if useCallFormat {
		used = callSer
		rt.Assert(instSer.calls == 0, "C18.percall.format")
	}
	rt.Assert(used.calls == 1, "C18.percall.format")
	rt.Assert(used.renderOpts == callRO, "C18.percall.RenderOptions")
	rt.Assert(used.serFormat != nil && used.serFormat.(string) == callFO, "C18.percall.formatOptions.serialize")
	rt.Assert(used.renFormat != nil && used.renFormat.(string) == callFO, "C18.percall.formatOptions.render")
	// the instance's own options are unchanged afterwards
	after := *w.Options
	rt.Assert(rt.And(after.Format == before.Format, after.RenderOptions == before.RenderOptions, 		after.StoreOptions == before.StoreOptions, w.Options.RenderOptions.Indent == beforeIndent), "C18.percall.instanceUnchanged")
	got := w.Options.GetFormatOptions(key)
	rt.Assert(got != nil && got.(string) != callFO, "C18.percall.instanceFormatOptionsUnchanged")
	later := writer.New()
	rt.Assert(later.Options.GetFormatOptions(key) == nil && later.Options.Format == "" && later.Options.RenderOptions.Indent == defaultIndent, "C18.percall.laterInstancePristine")
	writer.UnregisterSerializer(instFmt)
	writer.UnregisterSerializer(callFmt)
}

type recUnserializer struct {
	opts   *native.UnserializeOptions
	format interface{}
	calls  int
}

func (u *recUnserializer) Unserialize(_ io.Reader, uo *native.UnserializeOptions, fo interface{}) (*sbom.Document, error) {
	u.opts, u.format = uo, fo
	u.calls++
	return sbom.NewDocument(), nil
}

func H_C18_ReaderPerCall() {
	callFmt := formats.Format("x-call-" + rt.NondetString("callfmt"))
	u := &recUnserializer{}
	reader.RegisterUnserializer(callFmt, u)
	key := "*verifh.recUnserializer"
	r := reader.New(reader.WithFormatOptions(key, "inst-"+rt.NondetString("instfo")))
	callUO := &native.UnserializeOptions{}
	o := &reader.Options{Format: callFmt, UnserializeOptions: callUO}
	callFO := "call-" + rt.NondetString("callfo")
	o.SetFormatOptions(key, callFO)
	doc, err := r.ParseStreamWithOptions(nil, o)
	rt.Assert(err == nil && doc != nil, "C18.reader.percall.noerror")
	rt.Assert(u.calls == 1, "C18.reader.percall.format")
	rt.Assert(u.opts != nil, "C18.reader.percall.UnserializeOptions")
	rt.Assert(u.format != nil && u.format.(string) == callFO, "C18.reader.percall.formatOptions")
	got := r.Options.GetFormatOptions(key)
	rt.Assert(got != nil && got.(string) != callFO, "C18.reader.percall.instanceFormatOptionsUnchanged")
	// caller-built option objects never feed back into the defaults: a reader built afterwards is pristine
	later := reader.New()
	rt.Assert(later.Options.GetFormatOptions(key) == nil && later.Options.Format == "", "C18.reader.percall.laterInstancePristine")
	reader.UnregisterUnserializer(callFmt)
}

// H_C18_SharedCallOptions: one per-call options object that names no format, used with two writers configured for
// different formats: each call uses its own writer's format, and the caller's object is not written to.
func H_C18_SharedCallOptions() {
	fmtA := formats.Format("x-a-" + rt.NondetString("fmta"))
	fmtB := formats.Format("x-b-" + rt.NondetString("fmtb"))
	serA, serB := &recSerializer{}, &recSerializer{}
	writer.RegisterSerializer(fmtA, serA)
	writer.RegisterSerializer(fmtB, serB)
	wa, wb := writer.New(writer.WithFormat(fmtA)), writer.New(writer.WithFormat(fmtB))
	o := &writer.Options{RenderOptions: &native.RenderOptions{Indent: rt.NondetInt("indent", 0, 16)}}
	e1 := wa.WriteStreamWithOptions(&sbom.Document{}, nopWC{}, o)
	e2 := wb.WriteStreamWithOptions(&sbom.Document{}, nopWC{}, o)
	rt.Assert(e1 == nil && e2 == nil, "C18.sharedcall.noerror")
	rt.Assert(serA.calls == 1 && serB.calls == 1, "C18.sharedcall.format")
	rt.Assert(o.Format == "", "C18.sharedcall.callerObjectUntouched")
	rt.Assert(rt.And(wa.Options.Format == fmtA, wb.Options.Format == fmtB), "C18.sharedcall.instancesUnchanged")
	writer.UnregisterSerializer(fmtA)
	writer.UnregisterSerializer(fmtB)
}

// H_C18_ConfiguredInPlace: an instance configured after construction through its exported option objects: neither
// the defaults seen by instances built later, nor instances built earlier, change.
func H_C18_ConfiguredInPlace() {
	if rt.NondetChoice("kind", 2) == 0 {
		early := writer.New()
		earlyIndent, earlyNoClobber := early.Options.RenderOptions.Indent, early.Options.StoreOptions.NoClobber
		// built without options, or with options that are explicitly nil (documented as "keep the default")
		var w *writer.Writer
		switch rt.NondetChoice("niloptions", 3) {
		case 0:
			w = writer.New()
		case 1:
			w = writer.New(writer.WithRenderOptions(nil), writer.WithStoreOptions(nil))
		case 2:
			w = writer.New(writer.WithSerializeOptions(nil), writer.WithRenderOptions(nil))
		}
		w.Options.RenderOptions.Indent = rt.NondetInt("indent", 0, 16)
		w.Options.StoreOptions.NoClobber = !w.Options.StoreOptions.NoClobber
		w.Options.SetFormatOptions("k", rt.NondetString("v"))
		w.Options.Format = formats.Format("x-" + rt.NondetString("fmt"))
		later := writer.New()
		rt.Assert(rt.And(later.Options.RenderOptions.Indent == defaultIndent, later.Options.StoreOptions.NoClobber == earlyNoClobber,
			later.Options.GetFormatOptions("k") == nil, later.Options.Format == ""), "C18.inplace.writer.laterPristine")
		rt.Assert(rt.And(early.Options.RenderOptions.Indent == earlyIndent, early.Options.StoreOptions.NoClobber == earlyNoClobber,
			early.Options.GetFormatOptions("k") == nil, early.Options.Format == ""), "C18.inplace.writer.earlierUnchanged")
		return
	}
	early := reader.New()
	r := reader.New()
	r.Options.SetFormatOptions("k", rt.NondetString("v"))
	r.Options.Format = formats.Format("x-" + rt.NondetString("fmt"))
	r.Options.RetrieveOptions = &storage.RetrieveOptions{BackendOptions: "x"}
	later := reader.New()
	rt.Assert(rt.And(later.Options.GetFormatOptions("k") == nil, later.Options.Format == "", later.Options.RetrieveOptions == nil), "C18.inplace.reader.laterPristine")
	rt.Assert(rt.And(early.Options.GetFormatOptions("k") == nil, early.Options.Format == "", early.Options.RetrieveOptions == nil), "C18.inplace.reader.earlierUnchanged")
}

// H_C18_ParseLeavesConfig: parsing and writing through an instance do not change the instance's configuration
// (auto-detected formats, per-call options) - the configuration read afterwards is the one it was built with.
func H_C18_ParseLeavesConfig() {
	r := reader.New()
	cdx := jObj(jm{"bomFormat", jStr("CycloneDX")}, jm{"specVersion", jStr("1.5")}, jm{"version", jNum(1)},
		jm{"metadata", jObj(jm{"component", jObj(jm{"type", jStr("library")}, jm{"name", jStr("c")}, jm{"bom-ref", jStr("root")})})})
	if _, err := r.ParseStream(rt.NewJSONStream(cdx)); err != nil {
		rt.Assert(false, "C18.parse.ok")
		return
	}
	rt.Assert(rt.And(r.Options.Format == "", r.Options.GetFormatOptions("k") == nil, r.Options.RetrieveOptions == nil), "C18.parse.readerConfigUnchanged")
	later := reader.New()
	rt.Assert(later.Options.Format == "", "C18.parse.laterPristine")
	w := writer.New(writer.WithFormat(formats.CDX15JSON))
	doc := &sbom.Document{Metadata: &sbom.Metadata{Id: "d", Version: "1"}, NodeList: &sbom.NodeList{Nodes: []*sbom.Node{{Id: "n"}}, RootElements: []string{"n"}}}
	w.WriteStreamWithOptions(doc, nopWC{}, &writer.Options{Format: formats.SPDX23JSON, RenderOptions: &native.RenderOptions{Indent: 1}})
	rt.Assert(rt.And(w.Options.Format == formats.CDX15JSON, w.Options.RenderOptions.Indent == defaultIndent), "C18.parse.writerConfigUnchanged")
}
