package verifh

import (
	rt "github.com/protobom/protobom/internal/verifrt"
)

// Builders and accessors for JSON value trees (verifrt.J).

func jStr(s string) *rt.J  { return &rt.J{Kind: 3, S: s} }
func jNum(n int) *rt.J     { return &rt.J{Kind: 2, N: n} }
func jBool(b bool) *rt.J   { return &rt.J{Kind: 1, B: b} }
func jNull() *rt.J         { return &rt.J{Kind: 0} }
func jArr(xs ...*rt.J) *rt.J { return &rt.J{Kind: 4, Items: xs} }

type jm struct {
	k string
	v *rt.J
}

func jObj(ms ...jm) *rt.J {
	o := &rt.J{Kind: 5}
	for _, m := range ms {
		if m.v == nil {
			continue // absent member
		}
		o.Keys = append(o.Keys, m.k)
		o.Items = append(o.Items, m.v)
	}
	return o
}

// jGet returns member k of an object (the last one wins), or nil.
func jGet(o *rt.J, k string) *rt.J {
	if o == nil || o.Kind != 5 {
		return nil
	}
	var r *rt.J
	for i, key := range o.Keys {
		if key == k {
			r = o.Items[i]
		}
	}
	return r
}

func jItems(a *rt.J) []*rt.J {
	if a == nil || a.Kind != 4 {
		return nil
	}
	return a.Items
}

func jS(v *rt.J) string {
	if v == nil || v.Kind != 3 {
		return ""
	}
	return v.S
}
