package verifh

import (
	rt "github.com/protobom/protobom/internal/verifrt"
	"github.com/protobom/protobom/pkg/sbom"
)

// C08: one inductive step per editing operation from an arbitrary well-formed pre-state.

func c08single(p string) *sbom.NodeList {
	n := rt.Bound("N", 3, 3)
	e := rt.Bound("E", 2, 2)
	t := rt.Bound("T", 1, 2)
	r := rt.Bound("R", 1, 2)
	a := mkList(p, 1, n, e, t, r, 2)
	rt.Assume(wf(a))
	return a
}

func c08pair() (*sbom.NodeList, *sbom.NodeList) {
	n := rt.Bound("N2", 2, 2)
	e := rt.Bound("E2", 1, 1)
	t := rt.Bound("T2", 1, 2)
	r := rt.Bound("R2", 1, 1)
	a := mkList("a", 1, n, e, t, r, 2)
	rt.Assume(wf(a))
	b := mkList("b", 1, n, e, t, r, 2)
	rt.Assume(wf(b))
	return a, b
}

func H_C08_RemoveNodes() {
	a := c08single("a")
	before := cloneList(a)
	rm := []string{rt.NondetString("rm0")}
	if rt.Bound("RM", 1, 2) == 2 {
		rm = append(rm, rt.NondetString("rm1"))
	}
	a.RemoveNodes(rm)
	rt.Assert(wf(a), "C08.remove.wf")
	rt.Assert(norm(a), "C08.remove.norm")
	// exactly the named nodes are gone, with every edge and root entry mentioning them
	exact := true
	after := ids(a)
	for _, n := range before.Nodes {
		exact = rt.And(exact, rt.Iff(rt.StrIn(n.Id, after), rt.Not(rt.StrIn(n.Id, rm))))
	}
	exact = rt.And(exact, rt.StrSubset(after, ids(before)))
	rt.Assert(exact, "C08.remove.exact.nodes")
	edges := true
	for _, e := range a.Edges {
		edges = rt.And(edges, rt.Not(rt.StrIn(e.From, rm)))
		for _, to := range e.To {
			edges = rt.And(edges, rt.Not(rt.StrIn(to, rm)), hasTriple(before, e.From, e.Type, to))
		}
	}
	for _, e := range before.Edges {
		for _, to := range e.To {
			keep := rt.And(rt.Not(rt.StrIn(e.From, rm)), rt.Not(rt.StrIn(to, rm)))
			edges = rt.And(edges, rt.Implies(keep, hasTriple(a, e.From, e.Type, to)))
		}
	}
	rt.Assert(edges, "C08.remove.exact.edges")
	roots := true
	for _, r := range a.RootElements {
		roots = rt.And(roots, rt.Not(rt.StrIn(r, rm)), rt.StrIn(r, before.RootElements))
	}
	for _, r := range before.RootElements {
		roots = rt.And(roots, rt.Implies(rt.Not(rt.StrIn(r, rm)), rt.StrIn(r, a.RootElements)))
	}
	rt.Assert(roots, "C08.remove.exact.roots")
}

// H_C08_RemoveRoots: several root elements, several identifiers to remove (adjacent, repeated, absent).
func H_C08_RemoveRoots() {
	a := mkList("a", 2, rt.Bound("NR", 3, 3), rt.Bound("ER", 1, 1), 1, rt.Bound("RR", 2, 3), 2)
	rt.Assume(wf(a))
	before := cloneList(a)
	rm := []string{rt.NondetString("rm0"), rt.NondetString("rm1")}
	a.RemoveNodes(rm)
	rt.Assert(wf(a), "C08.removeroots.wf")
	roots := true
	for _, r := range a.RootElements {
		roots = rt.And(roots, rt.Not(rt.StrIn(r, rm)), rt.StrIn(r, before.RootElements))
	}
	for _, r := range before.RootElements {
		roots = rt.And(roots, rt.Implies(rt.Not(rt.StrIn(r, rm)), rt.StrIn(r, a.RootElements)))
	}
	rt.Assert(roots, "C08.removeroots.exact")
}

func H_C08_Union() {
	a, b := c08pair()
	r := a.Union(b)
	rt.Assert(wf(r), "C08.union.wf")
	rt.Assert(norm(r), "C08.union.norm")
}

func H_C08_Intersect() {
	a, b := c08pair()
	if rt.Thorough() {
		rt.MapOrderAll(true)
	}
	r := a.Intersect(b)
	rt.Assert(wf(r), "C08.intersect.wf")
	rt.Assert(norm(r), "C08.intersect.norm")
}

func H_C08_Add() {
	a, b := c08pair()
	a.Add(b)
	rt.Assert(wf(a), "C08.add.wf")
	rt.Assert(norm(a), "C08.add.norm")
}

func H_C08_RelateNode() {
	a := c08single("a")
	n := &sbom.Node{Id: rt.NondetString("nid")}
	at := rt.NondetString("at")
	err := a.RelateNodeAtID(n, at, edgeType(rt.NondetChoice("ty", 2)))
	rt.Assert(wf(a), "C08.relatenode.wf")
	rt.Assert(rt.Iff(err == nil, rt.StrIn(at, ids(a))), "C08.relatenode.err")
}

func H_C08_RelateList() {
	a, b := c08pair()
	at := rt.NondetString("at")
	before := ids(a)
	err := a.RelateNodeListAtID(b, at, edgeType(rt.NondetChoice("ty", 2)))
	rt.Assert(wf(a), "C08.relatelist.wf")
	rt.Assert(rt.Iff(err == nil, rt.StrIn(at, before)), "C08.relatelist.err")
}

func H_C08_NodeGraph() {
	a := c08single("a")
	r := a.NodeGraph(rt.NondetString("start"))
	if r == nil {
		return
	}
	rt.Assert(wf(r), "C08.graph.wf")
	rt.Assert(norm(r), "C08.graph.norm")
}

func H_C08_NodeSiblings() {
	a := c08single("a")
	r := a.NodeSiblings(rt.NondetString("start"))
	if r == nil {
		return
	}
	rt.Assert(wf(r), "C08.siblings.wf")
	rt.Assert(norm(r), "C08.siblings.norm")
}

func H_C08_NodeDescendants() {
	a := c08single("a")
	d := 1 + rt.NondetLen("depth", rt.Bound("D", 2, 3))
	r := a.NodeDescendants(rt.NondetString("start"), d)
	if r == nil {
		return
	}
	rt.Assert(wf(r), "C08.descendants.wf")
	rt.Assert(norm(r), "C08.descendants.norm")
}

// H_C08_Sequence: the invariant is about every list a sequence of operations has produced, not only the latest one:
// results obtained earlier from a receiver (whose slices have spare capacity, as lists grown by AddRootNode / AddEdge
// have) are still well-formed after the receiver is used again.
func H_C08_Sequence() {
	a := c12hist("a", "n0")
	b := c12hist("b", []string{"n0", "n1"}[rt.NondetChoice("bshares", 2)])
	c := c12hist("c", []string{"n0", "n2"}[rt.NondetChoice("cshares", 2)])
	ab := a.Union(b)
	ia := a.Intersect(b)
	switch rt.NondetChoice("then", 4) {
	case 0:
		a.Union(c)
	case 1:
		a.Add(c)
	case 2:
		a.AddRootNode(sentinelNode("n3", "x"))
	case 3:
		a.RemoveNodes([]string{"n0"})
	}
	rt.Assert(rt.And(wf(ab), norm(ab)), "C08.sequence.union")
	rt.Assert(rt.And(wf(ia), norm(ia)), "C08.sequence.intersect")
	rt.Assert(wf(a), "C08.sequence.receiver")
}

// H_C08_EmptyOperand: a well-formed receiver that is not normalised (parallel edges, repeated targets) merged with an
// empty list (or an empty list merged with it): the merging operations still return a normalised result.
func H_C08_EmptyOperand() {
	a := mkList("a", 1, 2, 2, 2, 1, 1)
	rt.Assume(wf(a))
	empty := sbom.NewNodeList()
	switch rt.NondetChoice("op", 4) {
	case 0:
		a.Add(empty)
		rt.Assert(rt.And(wf(a), norm(a)), "C08.empty.add")
	case 1:
		r := a.Union(empty)
		rt.Assert(rt.And(wf(r), norm(r)), "C08.empty.union")
	case 2:
		r := empty.Union(a)
		rt.Assert(rt.And(wf(r), norm(r)), "C08.empty.union.left")
	case 3:
		empty.Add(a)
		rt.Assert(rt.And(wf(empty), norm(empty)), "C08.empty.add.left")
	}
}
