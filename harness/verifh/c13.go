package verifh

import (
	rt "github.com/protobom/protobom/internal/verifrt"
	"github.com/protobom/protobom/pkg/sbom"
	"google.golang.org/protobuf/types/known/timestamppb"
)

// C13: equality and checksums. Equality must coincide with "same content": every attribute equal, collections
// compared as multisets (order-insensitive), dates to the second.

var perms = [][][]int{
	{{}},
	{{0}},
	{{0, 1}, {1, 0}},
	{{0, 1, 2}, {0, 2, 1}, {1, 0, 2}, {1, 2, 0}, {2, 0, 1}, {2, 1, 0}},
}

// permEq: two collections of equal length n<=3 are equal up to order; eq(i,j) compares a[i] with b[j].
func permEq(na, nb int, eq func(i, j int) bool) bool {
	if na != nb {
		return false
	}
	res := false
	for _, p := range perms[na] {
		ok := true
		for i, j := range p {
			ok = rt.And(ok, eq(i, j))
		}
		res = rt.Or(res, ok)
	}
	return res
}

func strsPermEq(a, b []string) bool {
	return permEq(len(a), len(b), func(i, j int) bool { return a[i] == b[j] })
}

func dateSecEq(a, b *timestamppb.Timestamp) bool {
	if a == nil || b == nil {
		return a == b
	}
	return a.Seconds == b.Seconds
}

// fieldSame: field f has the same content in x and y (multisets for collections, seconds for dates).
func fieldSame(x, y *sbom.Node, f int) bool {
	if l := strsField(x, f); l != nil {
		return strsPermEq(*l, *strsField(y, f))
	}
	if l := personsField(x, f); l != nil {
		a, b := *l, *personsField(y, f)
		return permEq(len(a), len(b), func(i, j int) bool { return personEq(a[i], b[j]) })
	}
	if d := dateField(x, f); d != nil {
		return dateSecEq(*d, *dateField(y, f))
	}
	switch f {
	case fExternalReferences:
		a, b := x.ExternalReferences, y.ExternalReferences
		return permEq(len(a), len(b), func(i, j int) bool { return extRefEq(a[i], b[j]) })
	case fPrimaryPurpose:
		a, b := x.PrimaryPurpose, y.PrimaryPurpose
		return permEq(len(a), len(b), func(i, j int) bool { return a[i] == b[j] })
	}
	return fieldEq(x, y, f)
}

// sepToken: the value is empty or contains anything but lower-case letters - in particular a character the
// flattened-string encoding uses as a delimiter (':', '(', ')', '[', '+', digits next to map keys). Two different
// values can then flatten to the same string (known finding: the encoding cannot change without breaking
// TestNodeFlatString). Outside this region - every value a non-empty word of letters - equality must discriminate,
// so an attribute dropped from the encoding is still caught.
func sepToken(v string) bool { return rt.Not(rt.StrPlain(v)) }

func personSep(p *sbom.Person) bool {
	s := rt.Or(sepToken(p.Name), sepToken(p.Email), sepToken(p.Url), sepToken(p.Phone))
	for _, c := range p.Contacts {
		s = rt.Or(s, personSep(c))
	}
	return s
}

func mapSep(m map[int32]string) bool {
	s := false
	for _, v := range m {
		s = rt.Or(s, sepToken(v))
	}
	return s
}

// fieldSep: some string inside field f of n contains a delimiter token.
func fieldSep(n *sbom.Node, f int) bool {
	if s := strField(n, f); s != nil {
		return sepToken(*s)
	}
	if l := strsField(n, f); l != nil {
		s := false
		for _, v := range *l {
			s = rt.Or(s, sepToken(v))
		}
		return s
	}
	if l := personsField(n, f); l != nil {
		s := false
		for _, p := range *l {
			s = rt.Or(s, personSep(p))
		}
		return s
	}
	if m := mapField(n, f); m != nil {
		return mapSep(*m)
	}
	if f == fExternalReferences {
		s := false
		for _, e := range n.ExternalReferences {
			s = rt.Or(s, sepToken(e.Url), sepToken(e.Comment), sepToken(e.Authority), mapSep(e.Hashes))
		}
		return s
	}
	return false
}

func c13pair(f, k int) (*sbom.Node, *sbom.Node) {
	n1 := sentinelNode("n", "a")
	n2 := sentinelNode("n", "a")
	fillField(n1, f, "x", k)
	fillField(n2, f, "y", k)
	return n1, n2
}

// H_C13_NodeField: for every schema field, two nodes that agree everywhere else are Equal exactly when the field has
// the same content, and Equal agrees with Checksum equality.
func H_C13_NodeField() {
	f := rt.NondetChoice("field", numNodeFields)
	k := rt.Bound("K", 1, 2)
	n1, n2 := c13pair(f, k)
	same := fieldSame(n1, n2, f)
	plainRegion(rt.Or(fieldSep(n1, f), fieldSep(n2, f)))
	eq := n1.Equal(n2)
	rt.Assert(rt.Implies(same, eq), "C13.node.samecontent."+nodeFieldNames[f])
	rt.Assert(rt.Implies(eq, same), "C13.node.discriminates."+nodeFieldNames[f])
	rt.Assert(rt.Iff(eq, n2.Equal(n1)), "C13.node.symmetric")
	rt.Assert(rt.Iff(eq, n1.Checksum() == n2.Checksum()), "C13.node.checksum")
	rt.Assert(rt.And(n1.Equal(n1), n1.Equal(cloneNode(n1))), "C13.node.reflexive")
}

// H_C13_NodeTransitive: transitivity on triples (one symbolic field).
func H_C13_NodeTransitive() {
	f := rt.NondetChoice("field", numNodeFields)
	if !rt.Thorough() && strField(sentinelNode("n", "a"), f) == nil {
		return // quick tier: scalar attributes only
	}
	k := rt.Bound("KT", 1, 2)
	n1, n2 := c13pair(f, k)
	n3 := sentinelNode("n", "a")
	fillField(n3, f, "z", k)
	rt.Assert(rt.Implies(rt.And(n1.Equal(n2), n2.Equal(n3)), n1.Equal(n3)), "C13.node.transitive")
}

// H_C13_NodePair: two scalar fields symbolic at once in both nodes: Equal implies both fields equal (cross-field
// collisions through the separator are the known finding; outside that region it must hold).
func H_C13_NodePair() {
	scalars := []int{fId, fName, fVersion, fFileName, fUrlHome, fUrlDownload, fLicenseConcluded, fLicenseComments, fCopyright, fSourceInfo, fComment, fSummary, fDescription}
	i := rt.NondetChoice("f", len(scalars))
	j := rt.NondetChoice("g", len(scalars))
	if j <= i {
		return
	}
	if !rt.Thorough() && j != i+1 {
		return
	}
	n1 := sentinelNode("n", "a")
	n2 := sentinelNode("n", "a")
	fillField(n1, scalars[i], "x", 1)
	fillField(n1, scalars[j], "x", 1)
	fillField(n2, scalars[i], "y", 1)
	fillField(n2, scalars[j], "y", 1)
	plainRegion(rt.Or(fieldSep(n1, scalars[i]), fieldSep(n1, scalars[j]), fieldSep(n2, scalars[i]), fieldSep(n2, scalars[j])))
	rt.Assert(rt.Implies(n1.Equal(n2), rt.And(fieldEq(n1, n2, scalars[i]), fieldEq(n1, n2, scalars[j]))), "C13.node.general")
}

func symEdge(p string, t int) *sbom.Edge {
	e := &sbom.Edge{From: rt.NondetString(p + "from"), Type: edgeType(rt.NondetChoice(p+"ty", 3))}
	nt := rt.NondetLen(p+"nt", t)
	for i := 0; i < nt; i++ {
		e.To = append(e.To, rt.NondetString(p+"to"))
	}
	return e
}

func edgeSame(a, b *sbom.Edge) bool {
	return rt.And(a.From == b.From, a.Type == b.Type, strsPermEq(a.To, b.To))
}

func edgeSep(e *sbom.Edge) bool {
	s := sepToken(e.From)
	for _, t := range e.To {
		s = rt.Or(s, sepToken(t))
	}
	return s
}

func H_C13_Edge() {
	t := rt.Bound("TE", 1, 2)
	e1, e2 := symEdge("x", t), symEdge("y", t)
	c1, c2 := &sbom.Edge{From: e1.From, Type: e1.Type, To: cloneStrs(e1.To)}, &sbom.Edge{From: e2.From, Type: e2.Type, To: cloneStrs(e2.To)}
	plainRegion(rt.Or(edgeSep(e1), edgeSep(e2)))
	eq := e1.Equal(e2)
	rt.Assert(rt.Implies(edgeSame(c1, c2), eq), "C13.edge.samecontent")
	rt.Assert(rt.Implies(eq, edgeSame(c1, c2)), "C13.edge.discriminates")
	rt.Assert(rt.Iff(eq, e2.Equal(e1)), "C13.edge.symmetric")
	rt.Assert(e1.Equal(e1), "C13.edge.reflexive")
}

func H_C13_EdgeTransitive() {
	rt.ThoroughOnly()
	e1, e2, e3 := symEdge("x", 2), symEdge("y", 2), symEdge("z", 2)
	rt.Assert(rt.Implies(rt.And(e1.Equal(e2), e2.Equal(e3)), e1.Equal(e3)), "C13.edge.transitive")
}

// H_C13_List: node-list equality is insensitive to the order of nodes, edges, targets and roots and sensitive to
// their content. Lists are small: 0..2 nodes (ids symbolic, one symbolic attribute), 0..2 edges, 0..2 roots.
func c13list(p string) *sbom.NodeList {
	nl := &sbom.NodeList{}
	nn := rt.NondetLen(p+"nn", rt.Bound("NL", 1, 2))
	for i := 0; i < nn; i++ {
		nl.Nodes = append(nl.Nodes, &sbom.Node{Id: rt.NondetString(p + "id"), Name: rt.NondetString(p + "name")})
	}
	ne := rt.NondetLen(p+"ne", rt.Bound("EL", 1, 2))
	for i := 0; i < ne; i++ {
		nl.Edges = append(nl.Edges, symEdge(p+"e", rt.Bound("TL", 1, 2)))
	}
	nr := rt.NondetLen(p+"nr", rt.Bound("RL", 1, 2))
	for i := 0; i < nr; i++ {
		nl.RootElements = append(nl.RootElements, rt.NondetString(p+"root"))
	}
	return nl
}

func listSame(a, b *sbom.NodeList) bool {
	nodes := permEq(len(a.Nodes), len(b.Nodes), func(i, j int) bool {
		return rt.And(a.Nodes[i].Id == b.Nodes[j].Id, a.Nodes[i].Name == b.Nodes[j].Name)
	})
	edges := permEq(len(a.Edges), len(b.Edges), func(i, j int) bool { return edgeSame(a.Edges[i], b.Edges[j]) })
	return rt.And(nodes, edges, strsPermEq(a.RootElements, b.RootElements))
}

func H_C13_List() {
	a, b := c13list("a"), c13list("b")
	ca, cb := cloneList(a), cloneList(b)
	sep := false
	for _, l := range []*sbom.NodeList{a, b} {
		for _, n := range l.Nodes {
			sep = rt.Or(sep, sepToken(n.Id), sepToken(n.Name))
		}
		for _, e := range l.Edges {
			sep = rt.Or(sep, edgeSep(e))
		}
	}
	plainRegion(sep)
	// node ids are unique inside each list (the comparison indexes nodes by id)
	rt.Assume(rt.And(rt.StrsDistinct(ids(a)), rt.StrsDistinct(ids(b))))
	eq := a.Equal(b)
	rt.Assert(rt.Implies(listSame(ca, cb), eq), "C13.list.samecontent")
	rt.Assert(rt.Implies(eq, listSame(ca, cb)), "C13.list.discriminates")
	rt.Assert(rt.Iff(eq, b.Equal(a)), "C13.list.symmetric")
}

// H_C13_Perm: order-insensitivity with two elements (cheap: no discrimination query): a node whose set-valued
// field holds [x, y] equals one holding [y, x]; an edge with targets [x, y] equals one with [y, x]; a list whose
// nodes, edges and roots are swapped equals the original.
func H_C13_Perm() {
	x, y := rt.NondetString("x"), rt.NondetString("y")
	for _, f := range []int{fLicenses, fAttribution, fFileTypes} {
		n1, n2 := sentinelNode("n", "a"), sentinelNode("n", "a")
		*strsField(n1, f) = []string{x, y}
		*strsField(n2, f) = []string{y, x}
		rt.Assert(rt.And(n1.Equal(n2), n1.Checksum() == n2.Checksum()), "C13.perm."+nodeFieldNames[f])
	}
	if rt.Thorough() {
		n1, n2 := sentinelNode("n", "a"), sentinelNode("n", "a")
		p, q := &sbom.Person{Name: x}, &sbom.Person{Name: y, IsOrg: true}
		n1.Suppliers = []*sbom.Person{p, q}
		n2.Suppliers = []*sbom.Person{clonePerson(q), clonePerson(p)}
		rt.Assert(n1.Equal(n2), "C13.perm.Suppliers")
	}
	e1 := &sbom.Edge{From: "f", Type: sbom.Edge_contains, To: []string{x, y}}
	e2 := &sbom.Edge{From: "f", Type: sbom.Edge_contains, To: []string{y, x}}
	rt.Assert(e1.Equal(e2), "C13.perm.edge.To")
	a := &sbom.NodeList{Nodes: []*sbom.Node{{Id: "a", Name: x}, {Id: "b", Name: y}}, Edges: []*sbom.Edge{{From: "a", To: []string{x}}, {From: "b", To: []string{y}}}, RootElements: []string{x, y}}
	b := &sbom.NodeList{Nodes: []*sbom.Node{{Id: "b", Name: y}, {Id: "a", Name: x}}, Edges: []*sbom.Edge{{From: "b", To: []string{y}}, {From: "a", To: []string{x}}}, RootElements: []string{y, x}}
	rt.Assert(a.Equal(b), "C13.perm.list")
}

// H_C13_ListEdges: node lists that differ only in their edge multisets (two edges each, possibly repeated).
func H_C13_ListEdges() {
	mk := func(p string) *sbom.NodeList {
		nl := &sbom.NodeList{}
		for i := 0; i < 2; i++ {
			nl.Edges = append(nl.Edges, &sbom.Edge{From: rt.NondetString(p + "from"), Type: sbom.Edge_contains, To: []string{"t"}})
		}
		return nl
	}
	a, b := mk("a"), mk("b")
	ca, cb := cloneList(a), cloneList(b)
	plainRegion(rt.Or(sepToken(a.Edges[0].From), sepToken(a.Edges[1].From), sepToken(b.Edges[0].From), sepToken(b.Edges[1].From)))
	eq := a.Equal(b)
	rt.Assert(rt.Implies(listSame(ca, cb), eq), "C13.list.samecontent")
	rt.Assert(rt.Implies(eq, listSame(ca, cb)), "C13.list.discriminates")
	rt.Assert(rt.Iff(eq, b.Equal(a)), "C13.list.symmetric")
}

// H_C13_ListDupIds: symmetry of node-list equality when identifiers repeat inside a list (ids chosen by decision from
// two values, names symbolic): whatever Equal answers for such lists, it answers the same in both directions.
func H_C13_ListDupIds() {
	mk := func(p string) *sbom.NodeList {
		nl := &sbom.NodeList{}
		for i := 0; i < 2; i++ {
			nl.Nodes = append(nl.Nodes, &sbom.Node{Id: []string{"x", "y"}[rt.NondetChoice(p+"id", 2)], Name: rt.NondetString(p + "name")})
		}
		return nl
	}
	a, b := mk("a"), mk("b")
	rt.Assert(rt.Iff(a.Equal(b), b.Equal(a)), "C13.list.symmetric")
}

// H_C13_Multiplicity: same-content means equal multisets: an element listed once and the same element listed twice
// are different contents, for every set-valued attribute (plain-word values: outside the listed collision region).
func H_C13_Multiplicity() {
	x := rt.NondetString("x")
	rt.Assume(rt.StrPlain(x))
	n1, n2 := sentinelNode("n", "a"), sentinelNode("n", "a")
	site := ""
	switch rt.NondetChoice("field", 6) {
	case 0:
		n1.Licenses, n2.Licenses, site = []string{x}, []string{x, x}, "Licenses"
	case 1:
		n1.Attribution, n2.Attribution, site = []string{x}, []string{x, x}, "Attribution"
	case 2:
		n1.FileTypes, n2.FileTypes, site = []string{x}, []string{x, x}, "FileTypes"
	case 3:
		p := func() *sbom.Person { return &sbom.Person{Name: x, Email: "e"} }
		n1.Suppliers, n2.Suppliers, site = []*sbom.Person{p()}, []*sbom.Person{p(), p()}, "Suppliers"
	case 4:
		p := func() *sbom.Person { return &sbom.Person{Name: x, IsOrg: true} }
		n1.Originators, n2.Originators, site = []*sbom.Person{p()}, []*sbom.Person{p(), p()}, "Originators"
	case 5:
		r := func() *sbom.ExternalReference {
			return &sbom.ExternalReference{Url: x, Type: sbom.ExternalReference_VCS, Hashes: map[int32]string{1: "h"}}
		}
		n1.ExternalReferences, n2.ExternalReferences, site = []*sbom.ExternalReference{r()}, []*sbom.ExternalReference{r(), r()}, "ExternalReferences"
	}
	rt.Assert(rt.And(rt.Not(n1.Equal(n2)), rt.Not(n2.Equal(n1))), "C13.multiplicity."+site)
	l1, l2 := &sbom.NodeList{Nodes: []*sbom.Node{n1}}, &sbom.NodeList{Nodes: []*sbom.Node{n2}}
	rt.Assert(rt.Not(l1.Equal(l2)), "C13.multiplicity.list."+site)
}
