package verifh

import (
	"strconv"

	rt "github.com/protobom/protobom/internal/verifrt"
	"github.com/protobom/protobom/pkg/formats"
	"github.com/protobom/protobom/pkg/reader"
	"github.com/protobom/protobom/pkg/sbom"
	"github.com/protobom/protobom/pkg/writer"
)

// C02: CycloneDX 1.4 / 1.5 write -> read round trip: node set, containment tree (any shape, any order of the stored
// edges), attributes, document serial number / version / lifecycles.

func roundTripCDX(doc *sbom.Document, f formats.Format, site string) *sbom.Document {
	s := rt.NewStream()
	if err := writer.New(writer.WithFormat(f)).WriteStream(doc, s); err != nil {
		rt.Assert(false, site+".write")
		return nil
	}
	s.Rewind()
	got, err := reader.New().ParseStream(s)
	if err != nil || got == nil || got.NodeList == nil {
		rt.Assert(false, site+".read")
		return nil
	}
	return got
}

func cdxVersion() formats.Format {
	return []formats.Format{formats.CDX15JSON, formats.CDX14JSON}[rt.NondetChoice("cdxversion", 2)]
}

// parentOf: the source of the contains edge that reaches id ("" for the root / when none), branch-free.
func parentIn(nl *sbom.NodeList, id string) string {
	p := ""
	for _, e := range nl.Edges {
		if e.Type != sbom.Edge_contains {
			continue
		}
		p = rt.IteStr(rt.StrIn(id, e.To), e.From, p)
	}
	return p
}

// H_C02_Tree: one root plus up to N-1 further nodes; the tree shape is a decision (the parent of node i is an earlier
// node); the stored contains edges are one per (parent, child) or grouped per parent, in a decision-chosen order.
func H_C02_Tree() {
	n := 2 + rt.NondetLen("n", rt.Bound("N", 4, 5)-2)
	idsList := []string{}
	nl := &sbom.NodeList{}
	for i := 0; i < n; i++ {
		id := rt.NondetString("id")
		if i == 1 {
			// one identifier is arbitrary text outside the reserved "protobom-" namespace; the others are plain words
			rt.Assume(rt.And(id != "", rt.Not(rt.StrHasPrefix(id, "protobom-"))))
		} else {
			rt.Assume(rt.StrPlain(id))
		}
		idsList = append(idsList, id)
		nl.Nodes = append(nl.Nodes, &sbom.Node{Id: id, Name: "name", Version: "1"})
	}
	rt.Assume(rt.StrsDistinct(idsList))
	nl.RootElements = []string{idsList[0]}
	parent := make([]int, n)
	depth := make([]int, n)
	maxDepth := 1
	var pairs [][2]int
	for i := 1; i < n; i++ {
		parent[i] = rt.NondetChoice("parent", i)
		depth[i] = depth[parent[i]] + 1
		if depth[i]+1 > maxDepth {
			maxDepth = depth[i] + 1
		}
		pairs = append(pairs, [2]int{parent[i], i})
	}
	// a decision-chosen order of the stored edges
	order := []int{}
	rest := []int{}
	for i := range pairs {
		rest = append(rest, i)
	}
	for len(rest) > 0 {
		c := rt.NondetChoice("next", len(rest))
		order = append(order, rest[c])
		rest = append(rest[:c], rest[c+1:]...)
	}
	grouped := rt.NondetChoice("grouped", 2) == 1
	for _, k := range order {
		p, c := idsList[pairs[k][0]], idsList[pairs[k][1]]
		if grouped {
			if e := nl.GetEdgeByType(p, sbom.Edge_contains); e != nil {
				e.To = append(e.To, c)
				continue
			}
		}
		nl.Edges = append(nl.Edges, &sbom.Edge{From: p, Type: sbom.Edge_contains, To: []string{c}})
	}
	doc := &sbom.Document{Metadata: &sbom.Metadata{Id: "urn:uuid:doc", Version: "1"}, NodeList: nl}
	want := cloneList(nl)
	got := roundTripCDX(doc, cdxVersion(), "C02.tree")
	if got == nil {
		return
	}
	gl := got.NodeList
	rt.Assert(rt.And(len(gl.Nodes) == len(want.Nodes), rt.StrSetEq(ids(gl), ids(want))), "C02.tree.nodes")
	// a containment chain of three or more levels below the root is a listed known finding (see known_findings.json)
	rt.Region("containmentDepthAtLeast3", maxDepth >= 3)
	ok := true
	for i := 1; i < n; i++ {
		ok = rt.And(ok, parentIn(gl, idsList[i]) == idsList[parent[i]])
	}
	ok = rt.And(ok, parentIn(gl, idsList[0]) == "")
	rt.Assert(ok, "C02.tree.parent")
	rt.Assert(rt.StrSetEq(gl.RootElements, want.RootElements), "C02.tree.root")
}

// ---- attributes ----

var c02fields = []int{fName, fVersion, fDescription, fCopyright, fHashes, fIdentifiers, fLicenses, fExternalReferences, fPrimaryPurpose}

// cdxAlgo: the hash algorithms CycloneDX names (CycloneDX 1.4 and 1.5 "hash-alg").
func cdxAlgo(a int32) bool {
	switch sbom.HashAlgorithm(a) {
	case sbom.HashAlgorithm_MD5, sbom.HashAlgorithm_SHA1, sbom.HashAlgorithm_SHA256, sbom.HashAlgorithm_SHA384, sbom.HashAlgorithm_SHA512,
		sbom.HashAlgorithm_SHA3_256, sbom.HashAlgorithm_SHA3_384, sbom.HashAlgorithm_SHA3_512,
		sbom.HashAlgorithm_BLAKE2B_256, sbom.HashAlgorithm_BLAKE2B_384, sbom.HashAlgorithm_BLAKE2B_512, sbom.HashAlgorithm_BLAKE3:
		return true
	}
	return false
}

// cdxNativePurpose: the purposes that are CycloneDX component types themselves (1.5 added data, device-driver,
// machine-learning-model and platform; written as 1.4 they are not expressible).
func cdxNativePurpose(p sbom.Purpose, v15 bool) bool {
	if !v15 {
		switch p {
		case sbom.Purpose_DATA, sbom.Purpose_DEVICE_DRIVER, sbom.Purpose_MACHINE_LEARNING_MODEL, sbom.Purpose_PLATFORM:
			return false
		}
	}
	switch p {
	case sbom.Purpose_APPLICATION, sbom.Purpose_CONTAINER, sbom.Purpose_DATA, sbom.Purpose_DEVICE, sbom.Purpose_DEVICE_DRIVER, sbom.Purpose_FILE,
		sbom.Purpose_FIRMWARE, sbom.Purpose_FRAMEWORK, sbom.Purpose_LIBRARY, sbom.Purpose_MACHINE_LEARNING_MODEL, sbom.Purpose_OPERATING_SYSTEM, sbom.Purpose_PLATFORM:
		return true
	}
	return false
}

// cdxExtRefType14: the external reference types of CycloneDX 1.4; cdxExtRefType15 adds those of 1.5.
func cdxExtRefType14(t sbom.ExternalReference_ExternalReferenceType) bool {
	switch t {
	case sbom.ExternalReference_VCS, sbom.ExternalReference_ISSUE_TRACKER, sbom.ExternalReference_WEBSITE, sbom.ExternalReference_SECURITY_ADVISORY,
		sbom.ExternalReference_BOM, sbom.ExternalReference_MAILING_LIST, sbom.ExternalReference_SOCIAL, sbom.ExternalReference_CHAT,
		sbom.ExternalReference_DOCUMENTATION, sbom.ExternalReference_SUPPORT, sbom.ExternalReference_DOWNLOAD, sbom.ExternalReference_LICENSE,
		sbom.ExternalReference_BUILD_META, sbom.ExternalReference_BUILD_SYSTEM, sbom.ExternalReference_RELEASE_NOTES, sbom.ExternalReference_OTHER:
		return true
	}
	return false
}

func cdxExtRefType15(t sbom.ExternalReference_ExternalReferenceType) bool {
	if cdxExtRefType14(t) {
		return true
	}
	switch t {
	case sbom.ExternalReference_ATTESTATION, sbom.ExternalReference_CERTIFICATION_REPORT, sbom.ExternalReference_CODIFIED_INFRASTRUCTURE,
		sbom.ExternalReference_COMPONENT_ANALYSIS_REPORT, sbom.ExternalReference_CONFIGURATION, sbom.ExternalReference_DISTRIBUTION_INTAKE,
		sbom.ExternalReference_DYNAMIC_ANALYSIS_REPORT, sbom.ExternalReference_EVIDENCE, sbom.ExternalReference_FORMULATION, sbom.ExternalReference_LOG,
		sbom.ExternalReference_MATURITY_REPORT, sbom.ExternalReference_MODEL_CARD, sbom.ExternalReference_POAM, sbom.ExternalReference_QUALITY_METRICS,
		sbom.ExternalReference_RISK_ASSESSMENT, sbom.ExternalReference_RUNTIME_ANALYSIS_REPORT, sbom.ExternalReference_SECURITY_ADVERSARY_MODEL,
		sbom.ExternalReference_SECURITY_CONTACT, sbom.ExternalReference_SECURITY_PENTEST_REPORT, sbom.ExternalReference_SECURITY_THREAT_MODEL,
		sbom.ExternalReference_STATIC_ANALYSIS_REPORT, sbom.ExternalReference_VULNERABILITY_ASSERTION,
		sbom.ExternalReference_VULNERABILITY_EXPLOITABILITY_ASSESSMENT:
		return true
	}
	return false
}

func c02fill(n *sbom.Node, f int) {
	plain := func(name string) string {
		s := rt.NondetString(name)
		rt.Assume(rt.StrPlain(s))
		return s
	}
	switch f {
	case fLicenses:
		cnt := rt.NondetLen("count", 3)
		l := []string{}
		for i := 0; i < cnt; i++ {
			l = append(l, plain("licence"))
		}
		n.Licenses = l
	case fHashes:
		n.Hashes = map[int32]string{rt.NondetInt32("algo", 0, 25): plain("hash")}
		if rt.NondetChoice("two", 2) == 1 {
			n.Hashes[int32(sbom.HashAlgorithm_SHA512)] = "second"
		}
	case fIdentifiers:
		n.Identifiers = map[int32]string{}
		if rt.NondetChoice("haspurl", 2) == 1 {
			n.Identifiers[int32(sbom.SoftwareIdentifierType_PURL)] = plain("purl")
		}
		switch rt.NondetChoice("cpe", 3) {
		case 1:
			n.Identifiers[int32(sbom.SoftwareIdentifierType_CPE22)] = "cpe:/" + plain("cpe")
		case 2:
			n.Identifiers[int32(sbom.SoftwareIdentifierType_CPE23)] = "cpe:2.3:" + plain("cpe")
		}
	case fPrimaryPurpose:
		n.PrimaryPurpose = []sbom.Purpose{sbom.Purpose(rt.NondetInt32("purpose", 0, 35))}
		if rt.NondetChoice("twopurposes", 2) == 1 {
			n.PrimaryPurpose = append(n.PrimaryPurpose, sbom.Purpose_LIBRARY)
		}
	case fExternalReferences:
		// one reference with a symbolic type (every enum number) or a symbolic hash algorithm, optionally followed by a fixed one
		er := &sbom.ExternalReference{Url: plain("url"), Type: sbom.ExternalReference_WEBSITE}
		if rt.NondetChoice("ermode", 2) == 0 {
			er.Type = sbom.ExternalReference_ExternalReferenceType(rt.NondetInt32("ertype", 0, 50))
			if rt.NondetChoice("hascomment", 2) == 1 {
				er.Comment = plain("comment")
			}
		} else {
			er.Hashes = map[int32]string{rt.NondetInt32("eralgo", 0, 25): plain("erhash")}
		}
		n.ExternalReferences = []*sbom.ExternalReference{er}
		if rt.NondetChoice("second", 2) == 1 {
			n.ExternalReferences = append(n.ExternalReferences, &sbom.ExternalReference{Url: "second", Comment: "c", Type: sbom.ExternalReference_VCS,
				Hashes: map[int32]string{int32(sbom.HashAlgorithm_SHA256): "h"}})
		}
	default:
		s := rt.NondetString(nodeFieldNames[f])
		rt.Assume(rt.Or(s == "", rt.StrPlain(s)))
		*strField(n, f) = s
	}
}

func cdxHashesSame(want, got map[int32]string) bool {
	ok := true
	for algo, v := range want {
		if cdxAlgo(algo) {
			g, has := got[algo]
			if !has {
				return false
			}
			ok = rt.And(ok, g == v)
		}
	}
	for algo := range got {
		if _, has := want[algo]; !has {
			return false
		}
	}
	return ok
}

func c02same(want, got *sbom.Node, f int, v15 bool) bool {
	switch f {
	case fLicenses:
		return strsPermEq(want.Licenses, got.Licenses)
	case fHashes:
		return cdxHashesSame(want.Hashes, got.Hashes)
	case fIdentifiers:
		return mapEq(want.Identifiers, got.Identifiers)
	case fPrimaryPurpose:
		if want.Type == sbom.Node_PACKAGE && len(want.PrimaryPurpose) > 0 && cdxNativePurpose(want.PrimaryPurpose[0], v15) {
			return len(got.PrimaryPurpose) == 1 && got.PrimaryPurpose[0] == want.PrimaryPurpose[0]
		}
		return true
	case fExternalReferences:
		a, b := want.ExternalReferences, got.ExternalReferences
		return permEq(len(a), len(b), func(i, j int) bool {
			native := cdxExtRefType14(a[i].Type) || (v15 && cdxExtRefType15(a[i].Type))
			return rt.And(a[i].Url == b[j].Url, a[i].Comment == b[j].Comment, !native || a[i].Type == b[j].Type, cdxHashesSame(a[i].Hashes, b[j].Hashes))
		})
	}
	return *strField(want, f) == *strField(got, f)
}

// kindExpressible: CycloneDX says "file" with the component type, so a package whose first purpose maps to the
// component type "file" cannot be told from a file; those are outside the kind assertion.
func kindExpressible(n *sbom.Node) bool {
	if n.Type == sbom.Node_FILE || len(n.PrimaryPurpose) == 0 {
		return true
	}
	switch n.PrimaryPurpose[0] {
	case sbom.Purpose_FILE, sbom.Purpose_PATCH, sbom.Purpose_SOURCE, sbom.Purpose_ARCHIVE:
		return false
	}
	return true
}

func c02attr(kind sbom.Node_NodeType, pos int, site string) {
	f := c02fields[rt.NondetChoice("field", len(c02fields))]
	v := rt.NondetChoice("cdxversion", 2)
	format := []formats.Format{formats.CDX15JSON, formats.CDX14JSON}[v]
	n := &sbom.Node{Id: "n", Type: kind, Name: "name"}
	c02fill(n, f)
	want := cloneNode(n)
	root := &sbom.Node{Id: "r", Type: sbom.Node_PACKAGE, Name: "root"}
	mid := &sbom.Node{Id: "m", Type: sbom.Node_PACKAGE, Name: "mid"}
	nl := &sbom.NodeList{RootElements: []string{"r"}}
	switch pos {
	case 0: // the node is the root (metadata.component)
		n.Id, want.Id = "r", "r"
		nl.Nodes = []*sbom.Node{n, mid}
		nl.Edges = []*sbom.Edge{{From: "r", Type: sbom.Edge_contains, To: []string{"m"}}}
	case 1: // a top level component
		nl.Nodes = []*sbom.Node{root, n}
		nl.Edges = []*sbom.Edge{{From: "r", Type: sbom.Edge_contains, To: []string{"n"}}}
	default: // a nested component
		nl.Nodes = []*sbom.Node{root, mid, n}
		nl.Edges = []*sbom.Edge{{From: "r", Type: sbom.Edge_contains, To: []string{"m"}}, {From: "m", Type: sbom.Edge_contains, To: []string{"n"}}}
	}
	doc := &sbom.Document{Metadata: &sbom.Metadata{Id: "urn:uuid:doc", Version: "1"}, NodeList: nl}
	got := roundTripCDX(doc, format, site)
	if got == nil {
		return
	}
	g := findNode(got.NodeList, want.Id)
	if g == nil || len(got.NodeList.Nodes) != len(nl.Nodes) {
		rt.Assert(false, site+".nodes")
		return
	}
	if kindExpressible(want) {
		rt.Assert(g.Type == kind, site+".kind")
	}
	// only the first of several licences is read back: a listed known finding (the conformance goldens pin it)
	rt.Region("twoOrMoreLicences", len(want.Licenses) >= 2)
	for _, x := range c02fields {
		rt.Assert(c02same(want, g, x, v == 0), site+"."+nodeFieldNames[x])
	}
	again := roundTripCDX(got, format, site+".second")
	if again == nil {
		return
	}
	g2 := findNode(again.NodeList, want.Id)
	if g2 == nil || len(again.NodeList.Nodes) != len(nl.Nodes) {
		rt.Assert(false, site+".second.nodes")
		return
	}
	rt.Assert(g2.Type == g.Type, site+".idempotent.kind")
	for _, x := range c02fields {
		rt.Assert(c02same(g, g2, x, v == 0), site+".idempotent."+nodeFieldNames[x])
	}
	rt.Assert(rt.And(hasTriple(again.NodeList, "r", sbom.Edge_contains, "m") == hasTriple(got.NodeList, "r", sbom.Edge_contains, "m"),
		len(again.NodeList.Edges) == len(got.NodeList.Edges)), site+".idempotent.edges")
}

func H_C02_PkgAttr()  { c02attr(sbom.Node_PACKAGE, rt.NondetChoice("position", 3), "C02.pkg") }
func H_C02_FileAttr() { c02attr(sbom.Node_FILE, rt.NondetChoice("position", 3), "C02.file") }

// H_C02_Doc: serial number, numeric version, lifecycle types (1.5).
func H_C02_Doc() {
	v := rt.NondetChoice("cdxversion", 2)
	format := []formats.Format{formats.CDX15JSON, formats.CDX14JSON}[v]
	serial := rt.NondetString("serial")
	rt.Assume(rt.StrPlain(serial))
	ver := rt.NondetInt("version", 0, 1000000)
	md := &sbom.Metadata{Id: serial, Version: strconv.Itoa(ver)}
	cnt := rt.NondetLen("lifecycles", 2)
	for i := 0; i < cnt; i++ {
		t := sbom.DocumentType_SBOMType(rt.NondetInt32("sbomtype", 0, 8))
		rt.Assume(t != sbom.DocumentType_RUNTIME) // documented as having no CycloneDX phase; the writer refuses it
		md.DocumentTypes = append(md.DocumentTypes, &sbom.DocumentType{Type: &t})
	}
	doc := &sbom.Document{Metadata: md, NodeList: &sbom.NodeList{Nodes: []*sbom.Node{{Id: "r", Name: "root"}}, RootElements: []string{"r"}}}
	got := roundTripCDX(doc, format, "C02.doc")
	if got == nil {
		return
	}
	rt.Assert(got.Metadata.Id == serial, "C02.doc.serial")
	rt.Assert(got.Metadata.Version == strconv.Itoa(ver), "C02.doc.version")
	if v == 0 {
		if len(got.Metadata.DocumentTypes) != cnt {
			rt.Assert(false, "C02.doc.lifecycles.count")
			return
		}
		for i, dt := range md.DocumentTypes {
			if *dt.Type == sbom.DocumentType_OTHER {
				continue // OTHER is carried by a free-text name, not by a CycloneDX phase
			}
			g := got.Metadata.DocumentTypes[i]
			rt.Assert(g.Type != nil && *g.Type == *dt.Type, "C02.doc.lifecycles.type")
		}
	}
	again := roundTripCDX(got, format, "C02.doc.second")
	if again == nil {
		return
	}
	rt.Assert(rt.And(again.Metadata.Id == got.Metadata.Id, again.Metadata.Version == got.Metadata.Version,
		len(again.Metadata.DocumentTypes) == len(got.Metadata.DocumentTypes)), "C02.doc.idempotent")
	if len(again.Metadata.DocumentTypes) == len(got.Metadata.DocumentTypes) {
		for i, g := range got.Metadata.DocumentTypes {
			a := again.Metadata.DocumentTypes[i]
			rt.Assert((a.Type == nil) == (g.Type == nil) && (g.Type == nil || *a.Type == *g.Type), "C02.doc.idempotent.lifecycles")
		}
	}
}
