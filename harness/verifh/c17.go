package verifh

import (
	"io"

	rt "github.com/protobom/protobom/internal/verifrt"
	"github.com/protobom/protobom/pkg/formats"
	"github.com/protobom/protobom/pkg/native"
	"github.com/protobom/protobom/pkg/reader"
	"github.com/protobom/protobom/pkg/sbom"
	"github.com/protobom/protobom/pkg/writer"
)

// C17: every package-level entry point of the reader and writer packages, executed symbolically from the package's
// initial state under the lock-set monitor: every access to memory that exists before the goroutines start is
// recorded with the locks held. Two accesses from different calls to one location, at least one a plain write, with
// no common excluding lock, not ordered by sync.Once, are a data race (for mutex / once / atomic-only
// synchronisation such a pair is realisable by some schedule, so schedules are not enumerated). A call whose
// accesses to one shared object span several atomic steps or critical sections is not linearizable.
// Natively the two calls run in loops on two goroutines under the race detector.

// stateless drivers: the drivers themselves must not introduce shared state
type nopSerializer struct{}

func (nopSerializer) Serialize(*sbom.Document, *native.SerializeOptions, interface{}) (interface{}, error) {
	return "native", nil
}
func (nopSerializer) Render(interface{}, io.Writer, *native.RenderOptions, interface{}) error { return nil }

type nopUnserializer struct{}

func (nopUnserializer) Unserialize(io.Reader, *native.UnserializeOptions, interface{}) (*sbom.Document, error) {
	return sbom.NewDocument(), nil
}

const c17ops = 15

func c17op(i int, fa, fb formats.Format) func() {
	switch i {
	case 0:
		return func() { rt.Call(func() { reader.RegisterUnserializer(fa, nopUnserializer{}) }) }
	case 1:
		return func() { rt.Call(func() { reader.UnregisterUnserializer(fa) }) }
	case 2:
		return func() {
			rt.Call(func() {
				u, err := reader.GetFormatUnserializer(fb)
				rt.Assert((u != nil) != (err != nil), "C17.linearizable.GetFormatUnserializer")
			})
		}
	case 3:
		return func() { rt.Call(func() { reader.New(reader.WithFormatOptions("k", "v")) }) }
	case 4:
		return func() { rt.Call(func() { writer.RegisterSerializer(fa, nopSerializer{}) }) }
	case 5:
		return func() { rt.Call(func() { writer.UnregisterSerializer(fa) }) }
	case 6:
		return func() {
			rt.Call(func() {
				s, err := writer.GetFormatSerializer(fb)
				rt.Assert((s != nil) != (err != nil), "C17.linearizable.GetFormatSerializer")
			})
		}
	case 7:
		return func() {
			rt.Call(func() { writer.New(writer.WithFormat(fa), writer.WithFormatOptions("k", "v")) })
		}
	case 8:
		return func() {
			rt.Call(func() {
				w := writer.New()
				w.WriteStreamWithOptions(&sbom.Document{}, nopWC{}, &writer.Options{Format: fb})
			})
		}
	case 9:
		return func() {
			rt.Call(func() {
				r := reader.New()
				r.ParseStreamWithOptions(nil, &reader.Options{Format: fb})
			})
		}
	case 10:
		// format detection of an independent tag-value document (its own stream): the line sniffer
		return func() {
			rt.Call(func() {
				s := rt.NewTextStream("SPDXVersion: SPDX-2.3", "DataLicense: CC0-1.0")
				f, err := (&formats.Sniffer{}).SniffReader(s)
				rt.Assert(err == nil && f == formats.SPDX23TV, "C17.linearizable.SniffReader.lines")
			})
		}
	case 11:
		// format detection of an independent JSON document
		return func() {
			rt.Call(func() {
				s := rt.NewJSONStream(jObj(jm{"bomFormat", jStr("CycloneDX")}, jm{"specVersion", jStr("1.5")}))
				f, err := (&formats.Sniffer{}).SniffReader(s)
				rt.Assert(err == nil && f == formats.CDX15JSON, "C17.linearizable.SniffReader.json")
			})
		}
	case 12:
		// a writer of its own, configured in place through its exported option objects, then used
		return func() {
			rt.Call(func() {
				w := writer.New()
				if w.Options.RenderOptions != nil {
					w.Options.RenderOptions.Indent = 3
				}
				if w.Options.StoreOptions != nil {
					w.Options.StoreOptions.NoClobber = true
				}
				w.Options.Format = fb
				w.WriteStream(&sbom.Document{}, nopWC{})
			})
		}
	case 13:
		// a reader of its own, configured in place, then used
		return func() {
			rt.Call(func() {
				r := reader.New()
				r.Options.Format = fb
				if r.Options.RetrieveOptions != nil {
					r.Options.RetrieveOptions.BackendOptions = "x"
				}
				r.ParseStreamWithOptions(nil, r.Options)
			})
		}
	}
	// identifier generation is what parsers of independent documents call concurrently
	return func() { rt.Call(func() { sbom.NewNodeIdentifier("auto", "000000001") }) }
}

func H_C17_Pairs() {
	i := rt.NondetChoice("op1", c17ops)
	j := rt.NondetChoice("op2", c17ops)
	if j < i {
		return
	}
	// one symbolic format shared by both calls (same key or different keys are both covered)
	fa := formats.Format("x-" + rt.NondetString("fa"))
	fb := formats.Format("x-" + rt.NondetString("fb"))
	// recording drivers for writes / parses of fb are present from the start
	writer.RegisterSerializer(fb, nopSerializer{})
	reader.RegisterUnserializer(fb, nopUnserializer{})
	rt.Par2("C17.race", c17op(i, fa, fb), c17op(j, fa, fb))
}

// H_C17_LookupVsSwap: a driver is hot-swapped (registered, removed) while another goroutine looks it up. Every lookup
// must return what some sequential order allows: a driver and no error, or no driver and an error.
func H_C17_LookupVsSwap() {
	f := formats.Format("x-" + rt.NondetString("f"))
	if rt.NondetChoice("side", 2) == 0 {
		rt.Par2("C17.race",
			func() {
				rt.Call(func() { writer.RegisterSerializer(f, nopSerializer{}) })
				rt.Call(func() { writer.UnregisterSerializer(f) })
			},
			func() {
				rt.Call(func() {
					s, err := writer.GetFormatSerializer(f)
					rt.Assert((s != nil) != (err != nil), "C17.linearizable.GetFormatSerializer")
				})
			})
		return
	}
	rt.Par2("C17.race",
		func() {
			rt.Call(func() { reader.RegisterUnserializer(f, nopUnserializer{}) })
			rt.Call(func() { reader.UnregisterUnserializer(f) })
		},
		func() {
			rt.Call(func() {
				u, err := reader.GetFormatUnserializer(f)
				rt.Assert((u != nil) != (err != nil), "C17.linearizable.GetFormatUnserializer")
			})
		})
}

// H_C17_RegisterFirst: the first use of the writer / reader package in a process is the registration of a driver for
// a built-in format, possibly next to a lookup: the lookup afterwards returns what some sequential order of the calls
// returns - the driver just registered (the lazy initialisation of the registry must not come later and undo it).
func H_C17_RegisterFirst() {
	f := []formats.Format{formats.CDX15JSON, formats.SPDX23JSON}[rt.NondetChoice("builtin", 2)]
	if rt.NondetChoice("side", 2) == 0 {
		mine := nopSerializer{}
		writer.RegisterSerializer(f, mine)
		s, err := writer.GetFormatSerializer(f)
		_, isMine := s.(nopSerializer)
		rt.Assert(err == nil && isMine, "C17.sequential.RegisterSerializer")
		return
	}
	reader.RegisterUnserializer(f, nopUnserializer{})
	u, err := reader.GetFormatUnserializer(f)
	_, isMine := u.(nopUnserializer)
	rt.Assert(err == nil && isMine, "C17.sequential.RegisterUnserializer")
}
