package verifh

import (
	rt "github.com/protobom/protobom/internal/verifrt"
	"github.com/protobom/protobom/pkg/sbom"
	"google.golang.org/protobuf/types/known/timestamppb"
)

// Schema-directed helpers for sbom.Node: every exported field of the message, in declaration order.
// H_*_Schema harnesses compare this table with the struct (go/types in the engine, reflect natively).

const (
	fId = iota
	fType
	fName
	fVersion
	fFileName
	fUrlHome
	fUrlDownload
	fLicenses
	fLicenseConcluded
	fLicenseComments
	fCopyright
	fSourceInfo
	fComment
	fSummary
	fDescription
	fAttribution
	fSuppliers
	fOriginators
	fReleaseDate
	fBuildDate
	fValidUntilDate
	fExternalReferences
	fFileTypes
	fIdentifiers
	fHashes
	fPrimaryPurpose
	numNodeFields
)

var nodeFieldNames = []string{"Id", "Type", "Name", "Version", "FileName", "UrlHome", "UrlDownload", "Licenses", "LicenseConcluded",
	"LicenseComments", "Copyright", "SourceInfo", "Comment", "Summary", "Description", "Attribution", "Suppliers", "Originators",
	"ReleaseDate", "BuildDate", "ValidUntilDate", "ExternalReferences", "FileTypes", "Identifiers", "Hashes", "PrimaryPurpose"}

func strField(n *sbom.Node, f int) *string {
	switch f {
	case fId:
		return &n.Id
	case fName:
		return &n.Name
	case fVersion:
		return &n.Version
	case fFileName:
		return &n.FileName
	case fUrlHome:
		return &n.UrlHome
	case fUrlDownload:
		return &n.UrlDownload
	case fLicenseConcluded:
		return &n.LicenseConcluded
	case fLicenseComments:
		return &n.LicenseComments
	case fCopyright:
		return &n.Copyright
	case fSourceInfo:
		return &n.SourceInfo
	case fComment:
		return &n.Comment
	case fSummary:
		return &n.Summary
	case fDescription:
		return &n.Description
	}
	return nil
}

func strsField(n *sbom.Node, f int) *[]string {
	switch f {
	case fLicenses:
		return &n.Licenses
	case fAttribution:
		return &n.Attribution
	case fFileTypes:
		return &n.FileTypes
	}
	return nil
}

func personsField(n *sbom.Node, f int) *[]*sbom.Person {
	switch f {
	case fSuppliers:
		return &n.Suppliers
	case fOriginators:
		return &n.Originators
	}
	return nil
}

func dateField(n *sbom.Node, f int) **timestamppb.Timestamp {
	switch f {
	case fReleaseDate:
		return &n.ReleaseDate
	case fBuildDate:
		return &n.BuildDate
	case fValidUntilDate:
		return &n.ValidUntilDate
	}
	return nil
}

func mapField(n *sbom.Node, f int) *map[int32]string {
	switch f {
	case fIdentifiers:
		return &n.Identifiers
	case fHashes:
		return &n.Hashes
	}
	return nil
}

// ---------------------------------------------------------------- symbolic fill

func symPerson(p string, depth int) *sbom.Person {
	pe := &sbom.Person{Name: rt.NondetString(p + "name"), IsOrg: rt.NondetBool(p + "isorg"), Email: rt.NondetString(p + "email")}
	if rt.Bound("PersonFields", 2, 4) == 4 {
		pe.Url = rt.NondetString(p + "url")
		pe.Phone = rt.NondetString(p + "phone")
	}
	if depth > 0 && rt.Thorough() {
		nc := rt.NondetLen(p+"ncontacts", 1)
		for i := 0; i < nc; i++ {
			pe.Contacts = append(pe.Contacts, symPerson(p+"c", depth-1))
		}
	}
	return pe
}

var mapKeys = []int32{1, 3, 7}

func symMap(p string, k int) map[int32]string {
	n := rt.NondetLen(p+"nent", k)
	if n == 0 {
		if rt.NondetChoice(p+"nilmap", 2) == 0 {
			return nil
		}
		return map[int32]string{}
	}
	m := map[int32]string{}
	off := rt.NondetChoice(p+"keyoff", len(mapKeys))
	for i := 0; i < n; i++ {
		m[mapKeys[(off+i)%len(mapKeys)]] = rt.NondetString(p + "val")
	}
	return m
}

func symExtRef(p string, k int) *sbom.ExternalReference {
	return &sbom.ExternalReference{Url: rt.NondetString(p + "url"), Comment: rt.NondetString(p + "comment"), Authority: rt.NondetString(p + "auth"),
		Type: sbom.ExternalReference_ExternalReferenceType(rt.NondetInt32(p+"type", 0, 40)), Hashes: symMap(p+"h", k)}
}

func symDate(p string) *timestamppb.Timestamp {
	if rt.NondetChoice(p+"nil", 2) == 0 {
		return nil
	}
	return &timestamppb.Timestamp{Seconds: rt.NondetInt64(p+"sec", 0, 4000000000), Nanos: rt.NondetInt32(p+"nanos", 0, 999999999)}
}

// fillField gives field f of n arbitrary content: symbolic scalars, lists of 0..k symbolic elements
// (nil and empty both covered), maps of 0..k entries.
func fillField(n *sbom.Node, f int, p string, k int) {
	if s := strField(n, f); s != nil {
		*s = rt.NondetString(p + nodeFieldNames[f])
		return
	}
	if l := strsField(n, f); l != nil {
		cnt := rt.NondetLen(p+"n"+nodeFieldNames[f], k)
		if cnt == 0 && rt.NondetChoice(p+"nil", 2) == 0 {
			*l = nil
			return
		}
		*l = []string{}
		for i := 0; i < cnt; i++ {
			*l = append(*l, rt.NondetString(p+nodeFieldNames[f]))
		}
		return
	}
	if l := personsField(n, f); l != nil {
		cnt := rt.NondetLen(p+"n"+nodeFieldNames[f], k)
		if cnt == 0 && rt.NondetChoice(p+"nil", 2) == 0 {
			*l = nil
			return
		}
		*l = []*sbom.Person{}
		for i := 0; i < cnt; i++ {
			*l = append(*l, symPerson(p+nodeFieldNames[f], 1))
		}
		return
	}
	if d := dateField(n, f); d != nil {
		*d = symDate(p + nodeFieldNames[f])
		return
	}
	if m := mapField(n, f); m != nil {
		*m = symMap(p+nodeFieldNames[f], k)
		return
	}
	switch f {
	case fType:
		n.Type = sbom.Node_NodeType(rt.NondetInt32(p+"Type", 0, 1))
	case fExternalReferences:
		cnt := rt.NondetLen(p+"nExternalReferences", k)
		if cnt == 0 && rt.NondetChoice(p+"nil", 2) == 0 {
			n.ExternalReferences = nil
			return
		}
		n.ExternalReferences = []*sbom.ExternalReference{}
		for i := 0; i < cnt; i++ {
			n.ExternalReferences = append(n.ExternalReferences, symExtRef(p+"ExtRef", 1))
		}
	case fPrimaryPurpose:
		cnt := rt.NondetLen(p+"nPrimaryPurpose", k)
		if cnt == 0 && rt.NondetChoice(p+"nil", 2) == 0 {
			n.PrimaryPurpose = nil
			return
		}
		n.PrimaryPurpose = []sbom.Purpose{}
		for i := 0; i < cnt; i++ {
			n.PrimaryPurpose = append(n.PrimaryPurpose, sbom.Purpose(rt.NondetInt32(p+"PrimaryPurpose", 0, 30)))
		}
	}
}

// sentinelNode returns a node with every field holding a distinct, non-empty concrete value.
func sentinelNode(id, tag string) *sbom.Node {
	n := &sbom.Node{Id: id, Type: sbom.Node_FILE}
	for f := fName; f < numNodeFields; f++ {
		if s := strField(n, f); s != nil {
			*s = tag + "-" + nodeFieldNames[f]
		}
		if l := strsField(n, f); l != nil {
			*l = []string{tag + "-" + nodeFieldNames[f] + "-0"}
		}
		if l := personsField(n, f); l != nil {
			*l = []*sbom.Person{{Name: tag + "-" + nodeFieldNames[f], Email: tag + "@example.com", Contacts: []*sbom.Person{{Name: tag + "-contact"}}}}
		}
		if m := mapField(n, f); m != nil {
			*m = map[int32]string{3: tag + "-" + nodeFieldNames[f]}
		}
	}
	off := int64(0)
	if tag == "b" {
		off = 500
	}
	n.ReleaseDate = &timestamppb.Timestamp{Seconds: 1000 + off, Nanos: 1}
	n.BuildDate = &timestamppb.Timestamp{Seconds: 2000 + off, Nanos: 2}
	n.ValidUntilDate = &timestamppb.Timestamp{Seconds: 3000 + off, Nanos: 3}
	n.ExternalReferences = []*sbom.ExternalReference{{Url: tag + "-url", Type: sbom.ExternalReference_WEBSITE, Comment: tag + "-c", Authority: tag + "-a", Hashes: map[int32]string{3: tag + "-h"}}}
	n.PrimaryPurpose = []sbom.Purpose{sbom.Purpose_LIBRARY}
	if tag == "b" {
		n.PrimaryPurpose = []sbom.Purpose{sbom.Purpose_CONTAINER}
	}
	return n
}

// ---------------------------------------------------------------- comparisons (branch-free over symbolic leaves)

func strsEq(a, b []string) bool {
	if len(a) != len(b) {
		return false
	}
	ok := true
	for i := range a {
		ok = rt.And(ok, a[i] == b[i])
	}
	return ok
}

func mapEq(a, b map[int32]string) bool {
	if len(a) != len(b) {
		return false
	}
	ok := true
	for k, v := range a {
		w, has := b[k]
		if !has {
			return false
		}
		ok = rt.And(ok, v == w)
	}
	return ok
}

func personEq(a, b *sbom.Person) bool {
	if a == nil || b == nil {
		return a == b
	}
	ok := rt.And(a.Name == b.Name, a.IsOrg == b.IsOrg, a.Email == b.Email, a.Url == b.Url, a.Phone == b.Phone)
	if len(a.Contacts) != len(b.Contacts) {
		return false
	}
	for i := range a.Contacts {
		ok = rt.And(ok, personEq(a.Contacts[i], b.Contacts[i]))
	}
	return ok
}

func personsEq(a, b []*sbom.Person) bool {
	if len(a) != len(b) {
		return false
	}
	ok := true
	for i := range a {
		ok = rt.And(ok, personEq(a[i], b[i]))
	}
	return ok
}

func extRefEq(a, b *sbom.ExternalReference) bool {
	if a == nil || b == nil {
		return a == b
	}
	return rt.And(a.Url == b.Url, a.Type == b.Type, a.Comment == b.Comment, a.Authority == b.Authority, mapEq(a.Hashes, b.Hashes))
}

func extRefsEq(a, b []*sbom.ExternalReference) bool {
	if len(a) != len(b) {
		return false
	}
	ok := true
	for i := range a {
		ok = rt.And(ok, extRefEq(a[i], b[i]))
	}
	return ok
}

func dateEq(a, b *timestamppb.Timestamp) bool {
	if a == nil || b == nil {
		return a == b
	}
	return rt.And(a.Seconds == b.Seconds, a.Nanos == b.Nanos)
}

func purposesEq(a, b []sbom.Purpose) bool {
	if len(a) != len(b) {
		return false
	}
	ok := true
	for i := range a {
		ok = rt.And(ok, a[i] == b[i])
	}
	return ok
}

// fieldEq: field f carries exactly the same value in x and y (order-sensitive; nil and empty collections are the same).
func fieldEq(x, y *sbom.Node, f int) bool {
	if s := strField(x, f); s != nil {
		return *s == *strField(y, f)
	}
	if l := strsField(x, f); l != nil {
		return strsEq(*l, *strsField(y, f))
	}
	if l := personsField(x, f); l != nil {
		return personsEq(*l, *personsField(y, f))
	}
	if d := dateField(x, f); d != nil {
		return dateEq(*d, *dateField(y, f))
	}
	if m := mapField(x, f); m != nil {
		return mapEq(*m, *mapField(y, f))
	}
	switch f {
	case fType:
		return x.Type == y.Type
	case fExternalReferences:
		return extRefsEq(x.ExternalReferences, y.ExternalReferences)
	case fPrimaryPurpose:
		return purposesEq(x.PrimaryPurpose, y.PrimaryPurpose)
	}
	return true
}

// fieldEmpty: the attribute is empty in the sense of Update/Augment (empty string, zero enum, nil date, zero-length collection).
func fieldEmpty(n *sbom.Node, f int) bool {
	if s := strField(n, f); s != nil {
		return *s == ""
	}
	if l := strsField(n, f); l != nil {
		return len(*l) == 0
	}
	if l := personsField(n, f); l != nil {
		return len(*l) == 0
	}
	if d := dateField(n, f); d != nil {
		return *d == nil
	}
	if m := mapField(n, f); m != nil {
		return len(*m) == 0
	}
	switch f {
	case fType:
		return n.Type == 0
	case fExternalReferences:
		return len(n.ExternalReferences) == 0
	case fPrimaryPurpose:
		return len(n.PrimaryPurpose) == 0
	}
	return true
}

// ---------------------------------------------------------------- harness-owned deep copies (independent of the code under test)

func clonePerson(p *sbom.Person) *sbom.Person {
	if p == nil {
		return nil
	}
	c := &sbom.Person{Name: p.Name, IsOrg: p.IsOrg, Email: p.Email, Url: p.Url, Phone: p.Phone}
	if p.Contacts != nil {
		c.Contacts = []*sbom.Person{}
		for _, x := range p.Contacts {
			c.Contacts = append(c.Contacts, clonePerson(x))
		}
	}
	return c
}

func cloneMap(m map[int32]string) map[int32]string {
	if m == nil {
		return nil
	}
	c := map[int32]string{}
	for k, v := range m {
		c[k] = v
	}
	return c
}

func cloneStrs(s []string) []string {
	if s == nil {
		return nil
	}
	c := []string{}
	for _, x := range s {
		c = append(c, x)
	}
	return c
}

func cloneDate(d *timestamppb.Timestamp) *timestamppb.Timestamp {
	if d == nil {
		return nil
	}
	return &timestamppb.Timestamp{Seconds: d.Seconds, Nanos: d.Nanos}
}

func cloneNode(n *sbom.Node) *sbom.Node {
	c := &sbom.Node{Id: n.Id, Type: n.Type}
	for f := fName; f < numNodeFields; f++ {
		if s := strField(n, f); s != nil {
			*strField(c, f) = *s
		}
		if l := strsField(n, f); l != nil {
			*strsField(c, f) = cloneStrs(*l)
		}
		if l := personsField(n, f); l != nil && *l != nil {
			cp := []*sbom.Person{}
			for _, x := range *l {
				cp = append(cp, clonePerson(x))
			}
			*personsField(c, f) = cp
		}
		if d := dateField(n, f); d != nil {
			*dateField(c, f) = cloneDate(*d)
		}
		if m := mapField(n, f); m != nil {
			*mapField(c, f) = cloneMap(*m)
		}
	}
	if n.ExternalReferences != nil {
		c.ExternalReferences = []*sbom.ExternalReference{}
		for _, e := range n.ExternalReferences {
			c.ExternalReferences = append(c.ExternalReferences, &sbom.ExternalReference{Url: e.Url, Type: e.Type, Comment: e.Comment, Authority: e.Authority, Hashes: cloneMap(e.Hashes)})
		}
	}
	if n.PrimaryPurpose != nil {
		c.PrimaryPurpose = []sbom.Purpose{}
		for _, p := range n.PrimaryPurpose {
			c.PrimaryPurpose = append(c.PrimaryPurpose, p)
		}
	}
	return c
}

func cloneList(nl *sbom.NodeList) *sbom.NodeList {
	c := &sbom.NodeList{}
	for _, n := range nl.Nodes {
		c.Nodes = append(c.Nodes, cloneNode(n))
	}
	for _, e := range nl.Edges {
		c.Edges = append(c.Edges, &sbom.Edge{Type: e.Type, From: e.From, To: cloneStrs(e.To)})
	}
	c.RootElements = cloneStrs(nl.RootElements)
	return c
}
