package verifh

import (
	rt "github.com/protobom/protobom/internal/verifrt"
	"github.com/protobom/protobom/pkg/formats"
	"github.com/protobom/protobom/pkg/reader"
	"github.com/protobom/protobom/pkg/sbom"
	"github.com/protobom/protobom/pkg/writer"
)

// C01: SPDX 2.3 write -> read round trip through the real writer, serializer, tools-golang marshalers (interpreted),
// the abstract JSON tree, tools-golang unmarshalers (interpreted) and the real unserializer.

// validSPDXID: our reading of "valid SPDX identifiers": non-empty words of letters (the engine's plain-word class),
// different from the reserved DOCUMENT. In particular no "SPDXRef-" / "DocumentRef-" inside, which tools-golang strips.
func validSPDXID(s string) bool {
	return rt.StrPlain(s)
}

func roundTripSPDX(doc *sbom.Document, site string) *sbom.Document {
	s := rt.NewStream()
	w := writer.New(writer.WithFormat(formats.SPDX23JSON))
	if err := w.WriteStream(doc, s); err != nil {
		rt.Assert(false, site+".write")
		return nil
	}
	s.Rewind()
	got, err := reader.New().ParseStream(s)
	if err != nil || got == nil || got.NodeList == nil {
		rt.Assert(false, site+".read")
		return nil
	}
	return got
}

func findNode(nl *sbom.NodeList, id string) *sbom.Node {
	for _, n := range nl.Nodes {
		if n.Id == id {
			return n
		}
	}
	return nil
}

// H_C01_Graph: node set (identifier and kind), typed edge set and root set survive.
func H_C01_Graph() {
	n := rt.Bound("N", 2, 3)
	nl := &sbom.NodeList{}
	cnt := 1 + rt.NondetLen("n", n-1)
	for i := 0; i < cnt; i++ {
		nd := &sbom.Node{Id: rt.NondetString("id"), Name: "n"}
		rt.Assume(validSPDXID(nd.Id))
		if rt.NondetChoice("isfile", 2) == 1 {
			nd.Type = sbom.Node_FILE
		}
		nl.Nodes = append(nl.Nodes, nd)
	}
	is := ids(nl)
	rt.Assume(rt.StrsDistinct(is))
	ne := rt.NondetLen("ne", rt.Bound("E", 2, 3))
	types := []sbom.Edge_Type{sbom.Edge_contains, sbom.Edge_dependsOn, sbom.Edge_describedBy}
	for i := 0; i < ne; i++ {
		e := &sbom.Edge{From: rt.NondetString("from"), Type: types[rt.NondetChoice("ty", len(types))]}
		rt.Assume(rt.StrIn(e.From, is))
		nt := 1 + rt.NondetLen("nt", rt.Bound("T", 1, 2)-1)
		for j := 0; j < nt; j++ {
			to := rt.NondetString("to")
			rt.Assume(rt.StrIn(to, is))
			e.To = append(e.To, to)
		}
		nl.Edges = append(nl.Edges, e)
	}
	nr := rt.NondetLen("nr", rt.Bound("R", 1, 2))
	for i := 0; i < nr; i++ {
		r := rt.NondetString("root")
		rt.Assume(rt.StrIn(r, is))
		nl.RootElements = append(nl.RootElements, r)
	}
	doc := &sbom.Document{Metadata: &sbom.Metadata{Id: "doc", Name: "name"}, NodeList: nl}
	want := cloneList(nl)
	got := roundTripSPDX(doc, "C01.graph")
	if got == nil {
		return
	}
	gl := got.NodeList
	nodes := rt.And(rt.StrSetEq(ids(gl), ids(want)), len(gl.Nodes) == len(want.Nodes))
	for _, w := range want.Nodes {
		g := findNodeSym(gl, w.Id)
		nodes = rt.And(nodes, g == int(w.Type))
	}
	rt.Assert(nodes, "C01.graph.nodes")
	edges := true
	for _, e := range want.Edges {
		for _, to := range e.To {
			edges = rt.And(edges, hasTriple(gl, e.From, e.Type, to))
		}
	}
	for _, e := range gl.Edges {
		for _, to := range e.To {
			edges = rt.And(edges, hasTriple(want, e.From, e.Type, to))
		}
	}
	rt.Assert(edges, "C01.graph.edges")
	rt.Assert(rt.StrSetEq(gl.RootElements, want.RootElements), "C01.graph.roots")
}

// findNodeSym: the kind (as int) of the node with this id, -1 when absent (branch-free over symbolic ids).
func findNodeSym(nl *sbom.NodeList, id string) int {
	kind := -1
	for _, n := range nl.Nodes {
		kind = rt.IteInt(n.Id == id, int(n.Type), kind)
	}
	return kind
}

// H_C01_EdgeTypes: every relationship type the model shares with SPDX survives exactly.
func H_C01_EdgeTypes() {
	t := sbom.Edge_Type(rt.NondetInt32("type", 0, 60))
	doc := &sbom.Document{Metadata: &sbom.Metadata{Id: "doc", Name: "name"}, NodeList: &sbom.NodeList{
		Nodes: []*sbom.Node{{Id: "a", Name: "a"}, {Id: "b", Name: "b"}}, RootElements: []string{"a"},
		Edges: []*sbom.Edge{{From: "a", Type: t, To: []string{"b"}}}}}
	shared := t.ToSPDX2() != ""
	got := roundTripSPDX(doc, "C01.edgetype")
	if got == nil {
		return
	}
	if shared {
		rt.Assert(len(got.NodeList.Edges) == 1 && got.NodeList.Edges[0].Type == t && got.NodeList.Edges[0].From == "a" &&
			len(got.NodeList.Edges[0].To) == 1 && got.NodeList.Edges[0].To[0] == "b", "C01.edgetype.exact")
	}
}

// ---- attributes: one node, one attribute symbolic at a time, every carried attribute compared afterwards

func convText(a, b string) bool {
	isConv := func(s string) bool { return rt.Or(s == "", s == "NOASSERTION", s == "NONE") }
	return rt.Or(a == b, rt.And(isConv(a), isConv(b)))
}

var c01pkgFields = []int{fName, fVersion, fFileName, fUrlHome, fUrlDownload, fLicenseConcluded, fLicenseComments, fCopyright, fSourceInfo, fComment, fSummary,
	fDescription, fAttribution, fHashes, fIdentifiers, fPrimaryPurpose, fReleaseDate, fBuildDate, fValidUntilDate, fExternalReferences, fSuppliers, fOriginators}

var c01fileFields = []int{fName, fLicenses, fLicenseConcluded, fLicenseComments, fCopyright, fComment, fFileTypes, fHashes}

// spdxAlgos: the 16 checksum algorithms the model shares with SPDX 2.3 (by their numbers in the model).
func spdxShared(algo int32) bool { return sbom.HashAlgorithm(algo).ToSPDX() != "" }

// c01fill gives attribute f symbolic content restricted to what SPDX 2.3 can carry.
func c01fill(n *sbom.Node, f int) {
	word := func(name string) string {
		s := rt.NondetString(name)
		rt.Assume(rt.Or(s == "", rt.StrPlain(s)))
		return s
	}
	switch f {
	case fAttribution, fLicenses, fFileTypes:
		cnt := rt.NondetLen("count", 2)
		l := []string{}
		for i := 0; i < cnt; i++ {
			w := rt.NondetString("elem")
			rt.Assume(rt.StrPlain(w))
			l = append(l, w)
		}
		*strsField(n, f) = l
	case fHashes:
		algo := rt.NondetInt32("algo", 0, 25)
		v := rt.NondetString("hash")
		rt.Assume(rt.StrPlain(v))
		n.Hashes = map[int32]string{algo: v}
		if rt.NondetChoice("two", 2) == 1 {
			n.Hashes[int32(sbom.HashAlgorithm_SHA512)] = "second"
		}
	case fIdentifiers:
		n.Identifiers = map[int32]string{}
		for _, t := range []sbom.SoftwareIdentifierType{sbom.SoftwareIdentifierType_PURL, sbom.SoftwareIdentifierType_CPE22, sbom.SoftwareIdentifierType_CPE23, sbom.SoftwareIdentifierType_GITOID} {
			if rt.NondetChoice("hasident", 2) == 1 {
				v := rt.NondetString("ident")
				rt.Assume(rt.StrPlain(v))
				n.Identifiers[int32(t)] = v
			}
		}
	case fPrimaryPurpose:
		n.PrimaryPurpose = []sbom.Purpose{sbom.Purpose(rt.NondetInt32("purpose", 0, 35))}
		if rt.NondetChoice("twopurposes", 2) == 1 {
			n.PrimaryPurpose = append(n.PrimaryPurpose, sbom.Purpose_LIBRARY)
		}
	case fReleaseDate, fBuildDate, fValidUntilDate:
		*dateField(n, f) = symDate("date")
	case fExternalReferences:
		cnt := rt.NondetLen("count", 2)
		n.ExternalReferences = nil
		for i := 0; i < cnt; i++ {
			u, c := rt.NondetString("url"), word("comment")
			rt.Assume(rt.StrPlain(u))
			n.ExternalReferences = append(n.ExternalReferences, &sbom.ExternalReference{Url: u, Comment: c,
				Type: sbom.ExternalReference_ExternalReferenceType(rt.NondetInt32("ertype", 0, 50))})
		}
	case fSuppliers, fOriginators:
		name := rt.NondetString("person")
		rt.Assume(rt.StrPlain(name))
		if rt.NondetChoice("nameWithParentheses", 2) == 1 {
			// a legal name that itself contains the characters the actor string uses as delimiters
			mid := rt.NondetString("personmid")
			rt.Assume(rt.StrPlain(mid))
			name = name + " (" + mid + ") ltd"
		}
		p := &sbom.Person{Name: name, IsOrg: rt.NondetBool("isorg")}
		if rt.NondetChoice("hasemail", 2) == 1 {
			p.Email = rt.NondetString("email")
			rt.Assume(rt.StrPlain(p.Email))
		}
		*personsField(n, f) = []*sbom.Person{p}
		if rt.NondetChoice("second", 2) == 1 {
			*personsField(n, f) = append(*personsField(n, f), &sbom.Person{Name: "other"})
		}
	default:
		*strField(n, f) = word(nodeFieldNames[f])
	}
}

// nativePurpose: SPDX 2.3 has this primary purpose natively (it comes back as itself).
func nativePurpose(p sbom.Purpose) bool {
	switch p {
	case sbom.Purpose_APPLICATION, sbom.Purpose_FRAMEWORK, sbom.Purpose_LIBRARY, sbom.Purpose_CONTAINER, sbom.Purpose_OPERATING_SYSTEM, sbom.Purpose_DEVICE,
		sbom.Purpose_FIRMWARE, sbom.Purpose_SOURCE, sbom.Purpose_ARCHIVE, sbom.Purpose_FILE, sbom.Purpose_INSTALL, sbom.Purpose_OTHER:
		return true
	}
	return false
}

func c01same(want, got *sbom.Node, f int) bool {
	switch f {
	case fAttribution, fLicenses, fFileTypes:
		return strsPermEq(*strsField(want, f), *strsField(got, f))
	case fHashes:
		ok := true
		for algo, v := range want.Hashes {
			if spdxShared(algo) {
				g, has := got.Hashes[algo]
				if !has {
					return false
				}
				ok = rt.And(ok, g == v)
			}
		}
		for algo := range got.Hashes {
			if _, has := want.Hashes[algo]; !has {
				return false
			}
		}
		return ok
	case fIdentifiers:
		return mapEq(want.Identifiers, got.Identifiers)
	case fPrimaryPurpose:
		if len(want.PrimaryPurpose) > 0 && nativePurpose(want.PrimaryPurpose[0]) {
			return len(got.PrimaryPurpose) == 1 && got.PrimaryPurpose[0] == want.PrimaryPurpose[0]
		}
		return true
	case fReleaseDate, fBuildDate, fValidUntilDate:
		return dateSecEq(*dateField(want, f), *dateField(got, f))
	case fExternalReferences:
		a, b := want.ExternalReferences, got.ExternalReferences
		return permEq(len(a), len(b), func(i, j int) bool {
			return rt.And(a[i].Url == b[j].Url, a[i].Comment == b[j].Comment)
		})
	case fSuppliers, fOriginators:
		a, b := *personsField(want, f), *personsField(got, f)
		if len(a) == 0 {
			return len(b) == 0
		}
		return len(b) >= 1 && rt.And(a[0].Name == b[0].Name, a[0].IsOrg == b[0].IsOrg, a[0].Email == b[0].Email)
	case fUrlDownload, fLicenseConcluded, fCopyright:
		return convText(*strField(want, f), *strField(got, f))
	}
	return *strField(want, f) == *strField(got, f)
}

func c01attr(kind sbom.Node_NodeType, fields []int, site string) {
	f := fields[rt.NondetChoice("field", len(fields))]
	n := &sbom.Node{Id: "n", Type: kind, Name: "name"}
	other := &sbom.Node{Id: "m", Type: sbom.Node_PACKAGE, Name: "after"}
	c01fill(n, f)
	want := cloneNode(n)
	doc := &sbom.Document{Metadata: &sbom.Metadata{Id: "doc", Name: "name"}, NodeList: &sbom.NodeList{Nodes: []*sbom.Node{n, other}, RootElements: []string{"n"}}}
	got := roundTripSPDX(doc, site)
	if got == nil {
		return
	}
	g := findNode(got.NodeList, "n")
	if g == nil || findNode(got.NodeList, "m") == nil {
		rt.Assert(false, site+".nodes")
		return
	}
	rt.Assert(g.Type == kind, site+".kind")
	for _, x := range fields {
		rt.Assert(c01same(want, g, x), site+"."+nodeFieldNames[x])
	}
	// a second write-then-read pass changes nothing further
	again := roundTripSPDX(got, site+".second")
	if again == nil {
		return
	}
	g2 := findNode(again.NodeList, "n")
	if g2 == nil {
		rt.Assert(false, site+".second.nodes")
		return
	}
	for _, x := range fields {
		rt.Assert(c01same(g, g2, x), site+".idempotent."+nodeFieldNames[x])
	}
}

func H_C01_PkgAttr()  { c01attr(sbom.Node_PACKAGE, c01pkgFields, "C01.pkg") }
func H_C01_FileAttr() { c01attr(sbom.Node_FILE, c01fileFields, "C01.file") }
