package verifh

import (
	rt "github.com/protobom/protobom/internal/verifrt"
	"github.com/protobom/protobom/pkg/sbom"
	"google.golang.org/protobuf/types/known/timestamppb"
)

// C12: copies and combined results share no mutable state with their sources. Independence is decided by
// havoc-and-compare: every mutable location reachable from one value (fields, slice elements up to capacity, map
// values and a new key) receives a fresh symbolic value; the other value's snapshot must be provably unchanged.

// c12node: every field populated - collections both non-empty and (by decision) empty-but-non-nil.
func c12node(p string) *sbom.Node {
	n := sentinelNode(rt.NondetString(p+"id"), "a")
	if rt.NondetChoice(p+"emptycollections", 2) == 1 {
		n.Hashes = map[int32]string{}
		n.Identifiers = map[int32]string{}
		n.Licenses = []string{}
		n.ExternalReferences[0].Hashes = map[int32]string{}
		n.PrimaryPurpose = []sbom.Purpose{}
	}
	n.Suppliers = []*sbom.Person{{Name: rt.NondetString(p + "sup"), Contacts: []*sbom.Person{{Name: "c1", Contacts: []*sbom.Person{{Name: "c2"}}}}}}
	return n
}

func indep(a, b any, site string) {
	s := rt.Snapshot(a)
	rt.Havoc(b)
	rt.Assert(rt.SameAsSnapshot(s, a), site)
}

func H_C12_CopyNode() {
	x, y := c12node("x"), c12node("y")
	// dates anywhere in the representable range, the epoch and earlier included
	x.ReleaseDate = &timestamppb.Timestamp{Seconds: rt.NondetInt64("sec", -2000000000, 4000000000), Nanos: rt.NondetInt32("nanos", 0, 999999999)}
	x.BuildDate = &timestamppb.Timestamp{Seconds: rt.NondetInt64("sec", -2000000000, 4000000000)}
	x.ValidUntilDate = &timestamppb.Timestamp{Seconds: rt.NondetInt64("sec", -2000000000, 4000000000)}
	c := x.Copy()
	rt.Assert(x.Equal(c), "C12.Node.equal")
	for f := 0; f < numNodeFields; f++ {
		rt.Assert(fieldEq(x, c, f), "C12.Node.equal."+nodeFieldNames[f])
	}
	indep(x, c, "C12.Node.indep.fwd")
	indep(y.Copy(), y, "C12.Node.indep.back")
}

func H_C12_CopyEdgePersonExtRef() {
	e := &sbom.Edge{From: rt.NondetString("from"), Type: sbom.Edge_contains, To: withSpare([]string{rt.NondetString("to"), rt.NondetString("to")}, "to")}
	ec := e.Copy()
	rt.Assert(rt.And(e.Equal(ec), edgeSame(e, ec)), "C12.Edge.equal")
	indep(e, ec, "C12.Edge.indep.fwd")
	e2 := &sbom.Edge{From: "f", To: []string{"a", "b"}}
	indep(e2.Copy(), e2, "C12.Edge.indep.back")

	p := &sbom.Person{Name: rt.NondetString("pname"), Email: "e", Contacts: []*sbom.Person{{Name: "c1", Contacts: []*sbom.Person{{Name: "c2"}}}, {Name: "c3"}}}
	pc := p.Copy()
	rt.Assert(personEq(p, pc), "C12.Person.equal")
	indep(p, pc, "C12.Person.indep.fwd")
	p2 := &sbom.Person{Name: "p2", Contacts: []*sbom.Person{{Name: "c"}}}
	indep(p2.Copy(), p2, "C12.Person.indep.back")

	x := &sbom.ExternalReference{Url: rt.NondetString("url"), Comment: "c", Authority: "a", Type: sbom.ExternalReference_VCS, Hashes: map[int32]string{1: "h"}}
	if rt.NondetChoice("emptyhashes", 2) == 1 {
		x.Hashes = map[int32]string{}
	}
	xc := x.Copy()
	rt.Assert(extRefEq(x, xc), "C12.ExternalReference.equal")
	indep(x, xc, "C12.ExternalReference.indep.fwd")
	indep(x.Copy(), x, "C12.ExternalReference.indep.back")
}

func c12list(p string, n int) *sbom.NodeList {
	nl := &sbom.NodeList{}
	for i := 0; i < n; i++ {
		nd := sentinelNode(rt.NondetString(p+"id"), "a")
		if i == 0 {
			nd = c12node(p)
		}
		nl.Nodes = append(nl.Nodes, nd)
	}
	nl.Edges = []*sbom.Edge{{From: rt.NondetString(p + "from"), Type: sbom.Edge_contains, To: withSpare([]string{rt.NondetString(p + "to")}, p+"to")}}
	nl.RootElements = withSpare([]string{rt.NondetString(p + "root")}, p+"root")
	return nl
}

func H_C12_CopyList() {
	a := c12list("a", 2)
	c := a.Copy()
	rt.Assume(rt.StrsDistinct(ids(a)))
	rt.Assert(a.Equal(c), "C12.NodeList.equal")
	indep(a, c, "C12.NodeList.indep.fwd")
	b := c12list("b", 1)
	indep(b.Copy(), b, "C12.NodeList.indep.back")
}

func H_C12_UnionIntersect() {
	a, b := c12list("a", rt.Bound("NU", 1, 2)), c12list("b", rt.Bound("NU", 1, 2))
	op := rt.NondetChoice("op", 2)
	var r *sbom.NodeList
	site := "C12.union"
	if op == 0 {
		r = a.Union(b)
	} else {
		r = a.Intersect(b)
		site = "C12.intersect"
	}
	switch rt.NondetChoice("direction", 3) {
	case 0:
		sa, sb := rt.Snapshot(a), rt.Snapshot(b)
		rt.Havoc(r)
		rt.Assert(rt.SameAsSnapshot(sa, a), site+".result-to-first")
		rt.Assert(rt.SameAsSnapshot(sb, b), site+".result-to-second")
	case 1:
		indep(r, a, site+".first-to-result")
	case 2:
		indep(r, b, site+".second-to-result")
	}
}

// H_C12_History: results returned by earlier calls are not altered by later calls on the same operands. Identifiers
// are concrete here (which lists share a node, and which slices carry spare capacity, are decisions): the aliasing
// under test depends on capacities and on whether nodes are shared, not on the spelling of the identifiers.
func c12hist(tag string, id string) *sbom.NodeList {
	n := sentinelNode(id, tag)
	return &sbom.NodeList{Nodes: []*sbom.Node{n},
		Edges:        []*sbom.Edge{{From: id, Type: sbom.Edge_contains, To: withSpare([]string{id}, tag+"to")}},
		RootElements: withSpare([]string{id}, tag+"root")}
}

func H_C12_History() {
	a := c12hist("a", "n0")
	b := c12hist("b", []string{"n0", "n1"}[rt.NondetChoice("bshares", 2)])
	c := c12hist("c", []string{"n0", "n2"}[rt.NondetChoice("cshares", 2)])
	r1 := a.Union(b)
	s1 := rt.Snapshot(r1)
	i1 := a.Intersect(b)
	s2 := rt.Snapshot(i1)
	a.Union(c)
	a.Intersect(c)
	b.Union(c)
	a.Equal(b)
	a.Copy()
	rt.Assert(rt.SameAsSnapshot(s1, r1), "C12.history.union")
	rt.Assert(rt.SameAsSnapshot(s2, i1), "C12.history.intersect")
	// and a later change of an operand does not reach an earlier result
	rt.Havoc(a)
	rt.Havoc(b)
	rt.Assert(rt.SameAsSnapshot(s1, r1), "C12.history.union.afteredit")
	rt.Assert(rt.SameAsSnapshot(s2, i1), "C12.history.intersect.afteredit")
}

// H_C12_Shapes: operand shapes the general harness does not have: a side without root elements (the result must not
// adopt the other side's list), and one relationship spelled as two edges on the argument's side (as the SPDX reader
// produces them). Independence in both directions, and a copy made earlier is not altered by the later call that
// takes it as an operand.
func H_C12_Shapes() {
	mk := func(p string) *sbom.NodeList {
		return &sbom.NodeList{Nodes: []*sbom.Node{sentinelNode("n0", p), sentinelNode(p+"1", p)},
			Edges:        []*sbom.Edge{{From: "n0", Type: sbom.Edge_contains, To: withSpare([]string{p + "1"}, p+"to")}},
			RootElements: withSpare([]string{"n0"}, p+"root")}
	}
	a, b := mk("a"), mk("b")
	switch rt.NondetChoice("shape", 4) {
	case 1:
		a.RootElements = nil
	case 2:
		b.RootElements = nil
	case 3:
		a.Edges = nil
		b.Edges = append(b.Edges, &sbom.Edge{From: "n0", Type: sbom.Edge_contains, To: withSpare([]string{"n0"}, "bto2")})
	}
	bc := b.Copy() // an earlier result
	sbc := rt.Snapshot(bc)
	var r *sbom.NodeList
	site := "C12.shapes.union"
	switch rt.NondetChoice("op", 2) { // the in-place Add makes no independence promise (C12 names copies, unions, intersections)
	case 0:
		r = a.Union(bc)
	case 1:
		r = a.Intersect(bc)
		site = "C12.shapes.intersect"
	}
	rt.Assert(rt.SameAsSnapshot(sbc, bc), site+".earlier-copy-unaltered")
	switch rt.NondetChoice("direction", 2) {
	case 0:
		sa, sb := rt.Snapshot(a), rt.Snapshot(bc)
		rt.Havoc(r)
		rt.Assert(rt.SameAsSnapshot(sa, a), site+".result-to-first")
		rt.Assert(rt.SameAsSnapshot(sb, bc), site+".result-to-second")
	case 1:
		sr := rt.Snapshot(r)
		rt.Havoc(bc)
		rt.Havoc(a)
		rt.Assert(rt.SameAsSnapshot(sr, r), site+".operands-to-result")
	}
}
