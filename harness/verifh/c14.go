package verifh

import (
	rt "github.com/protobom/protobom/internal/verifrt"
	"github.com/protobom/protobom/pkg/sbom"
	"google.golang.org/protobuf/types/known/timestamppb"
)

// C14: Node.Diff is sound (nil for equal nodes), complete (a difference iff some attribute differs: sets for
// collections, seconds for dates), counts each differing attribute once, and Added/Removed rebuild n2 from n1.

func strsSetEq(a, b []string) bool { return rt.StrSetEq(a, b) }

// fieldSameSet: same content with collections compared as sets (the granularity Diff documents).
func fieldSameSet(x, y *sbom.Node, f int) bool {
	if l := strsField(x, f); l != nil {
		return strsSetEq(*l, *strsField(y, f))
	}
	if l := personsField(x, f); l != nil {
		a, b := *l, *personsField(y, f)
		ok := true
		for _, p := range a {
			in := false
			for _, q := range b {
				in = rt.Or(in, personEq(p, q))
			}
			ok = rt.And(ok, in)
		}
		for _, q := range b {
			in := false
			for _, p := range a {
				in = rt.Or(in, personEq(p, q))
			}
			ok = rt.And(ok, in)
		}
		return ok
	}
	if d := dateField(x, f); d != nil {
		return dateSecEq(*d, *dateField(y, f))
	}
	switch f {
	case fExternalReferences:
		a, b := x.ExternalReferences, y.ExternalReferences
		ok := true
		for _, p := range a {
			in := false
			for _, q := range b {
				in = rt.Or(in, extRefEq(p, q))
			}
			ok = rt.And(ok, in)
		}
		for _, q := range b {
			in := false
			for _, p := range a {
				in = rt.Or(in, extRefEq(p, q))
			}
			ok = rt.And(ok, in)
		}
		return ok
	case fPrimaryPurpose:
		a, b := x.PrimaryPurpose, y.PrimaryPurpose
		ok := true
		for _, p := range a {
			in := false
			for _, q := range b {
				in = rt.Or(in, p == q)
			}
			ok = rt.And(ok, in)
		}
		for _, q := range b {
			in := false
			for _, p := range a {
				in = rt.Or(in, p == q)
			}
			ok = rt.And(ok, in)
		}
		return ok
	}
	return fieldEq(x, y, f)
}

// rebuilt: field f of n2 as reconstructed from n1 and the diff (nil diff = no change).
func rebuiltMatches(n1, n2 *sbom.Node, d *sbom.NodeDiff, f int) bool {
	if d == nil {
		return fieldSameSet(n1, n2, f)
	}
	add, rem := d.Added, d.Removed
	if s := strField(n1, f); s != nil {
		a, r, want := *strField(add, f), *strField(rem, f), *strField(n2, f)
		return rt.Or(rt.And(a != "", a == want), rt.And(a == "", r != "", want == ""), rt.And(a == "", r == "", *s == want))
	}
	if l := strsField(n1, f); l != nil {
		a, r, want := *strsField(add, f), *strsField(rem, f), *strsField(n2, f)
		ok := true
		// every wanted element is added or was there and not removed; everything kept or added is wanted
		for _, w := range want {
			ok = rt.And(ok, rt.Or(rt.StrIn(w, a), rt.And(rt.StrIn(w, *l), rt.Not(rt.StrIn(w, r)))))
		}
		for _, x := range *l {
			ok = rt.And(ok, rt.Or(rt.StrIn(x, r), rt.StrIn(x, want)))
		}
		for _, x := range a {
			ok = rt.And(ok, rt.StrIn(x, want))
		}
		return ok
	}
	if m := mapField(n1, f); m != nil {
		a, r, want := *mapField(add, f), *mapField(rem, f), *mapField(n2, f)
		ok := true
		for _, k := range mapKeys {
			wv, wh := want[k]
			av, ah := a[k]
			_, rh := r[k]
			ov, oh := (*m)[k]
			if ah {
				ok = rt.And(ok, wh, av == wv)
			} else if rh || !oh {
				ok = rt.And(ok, !wh)
			} else {
				ok = rt.And(ok, wh, ov == wv)
			}
		}
		return ok
	}
	if dt := dateField(n1, f); dt != nil {
		a, r, want := *dateField(add, f), *dateField(rem, f), *dateField(n2, f)
		if a != nil {
			return dateSecEq(a, want)
		}
		if r != nil {
			return want == nil
		}
		return dateSecEq(*dt, want)
	}
	switch f {
	case fType:
		// enum scalar: added when non-zero, else zero if something was removed, else unchanged
		return rt.Or(rt.And(add.Type != 0, add.Type == n2.Type), rt.And(add.Type == 0, rem.Type != 0, n2.Type == 0), rt.And(add.Type == 0, rem.Type == 0, n1.Type == n2.Type))
	}
	return true
}

func H_C14_Field() {
	f := rt.NondetChoice("field", numNodeFields)
	k := rt.Bound("K", 1, 2)
	n1 := sentinelNode("n", "a")
	n2 := sentinelNode("n", "a")
	fillField(n1, f, "x", k)
	fillField(n2, f, "y", k)
	c1, c2 := cloneNode(n1), cloneNode(n2)
	plainRegion(rt.Or(fieldSep(n1, f), fieldSep(n2, f)))
	d := n1.Diff(n2)
	same := fieldSameSet(c1, c2, f)
	rt.Assert(rt.Iff(d == nil, same), "C14.iff."+nodeFieldNames[f])
	if d != nil {
		rt.Assert(d.DiffCount == 1, "C14.count."+nodeFieldNames[f])
		if d.Added == nil || d.Removed == nil {
			rt.Assert(false, "C14.shape")
			return
		}
	}
	rt.Assert(rebuiltMatches(c1, c2, d, f), "C14.rebuild."+nodeFieldNames[f])
}

func H_C14_Self() {
	f := rt.NondetChoice("field", numNodeFields)
	n := sentinelNode("n", "a")
	fillField(n, f, "x", rt.Bound("KS", 2, 2))
	rt.Assert(n.Diff(n) == nil, "C14.self")
	rt.Assert(n.Diff(cloneNode(n)) == nil, "C14.equalnode")
}

// two attributes at once: the count is the number of differing attributes
func H_C14_Count() {
	scal := []int{fId, fType, fName, fVersion, fLicenses, fHashes, fReleaseDate, fSuppliers, fCopyright, fIdentifiers, fPrimaryPurpose, fDescription}
	i := rt.NondetChoice("f", len(scal))
	j := rt.NondetChoice("g", len(scal))
	if j <= i {
		return
	}
	if !rt.Thorough() && j != i+1 {
		return
	}
	n1 := sentinelNode("n", "a")
	n2 := sentinelNode("n", "a")
	for _, f := range []int{scal[i], scal[j]} {
		fillField(n1, f, "x", 1)
		fillField(n2, f, "y", 1)
	}
	plainRegion(rt.Or(fieldSep(n1, scal[i]), fieldSep(n2, scal[i]), fieldSep(n1, scal[j]), fieldSep(n2, scal[j])))
	c1, c2 := cloneNode(n1), cloneNode(n2)
	d := n1.Diff(n2)
	di := rt.Not(fieldSameSet(c1, c2, scal[i]))
	dj := rt.Not(fieldSameSet(c1, c2, scal[j]))
	cnt := 0
	if d != nil {
		cnt = d.DiffCount
	}
	want := rt.IteInt(di, 1, 0) + rt.IteInt(dj, 1, 0)
	site := "C14.count.pair." + nodeFieldNames[scal[i]] + "." + nodeFieldNames[scal[j]]
	if scal[i] == fSuppliers || scal[j] == fSuppliers {
		site = "C14.count.pair.Suppliers." + nodeFieldNames[scal[i]] + "." + nodeFieldNames[scal[j]]
	}
	rt.Assert(cnt == want, site)
}

var _ = timestamppb.New

// H_C14_Lists: set-valued attributes with two elements on the first node and one of them on the second (a removed
// element behind a kept one and the other way round): the report is the same when asked twice, and rebuilding the
// second node from the first one as it is after the call gives the second node.
func H_C14_Lists() {
	fields := []int{fLicenses, fAttribution, fFileTypes}
	f := fields[rt.NondetChoice("field", len(fields))]
	x, y := rt.NondetString("x"), rt.NondetString("y")
	rt.Assume(rt.And(rt.StrPlain(x), rt.StrPlain(y), x != y))
	n1, n2 := sentinelNode("n", "a"), sentinelNode("n", "a")
	*strsField(n1, f) = withSpare([]string{x, y}, "l")
	if rt.NondetChoice("keep", 2) == 0 {
		*strsField(n2, f) = []string{x}
	} else {
		*strsField(n2, f) = []string{y}
	}
	c2 := cloneNode(n2)
	d := n1.Diff(n2)
	if d == nil || d.Added == nil || d.Removed == nil {
		rt.Assert(false, "C14.lists.reported")
		return
	}
	rt.Assert(rebuiltMatches(n1, c2, d, f), "C14.lists.rebuild."+nodeFieldNames[f])
	d2 := n1.Diff(n2)
	rt.Assert(d2 != nil && d2.DiffCount == d.DiffCount && rt.StrSetEq(*strsField(d2.Removed, f), *strsField(d.Removed, f)), "C14.lists.again."+nodeFieldNames[f])
}
