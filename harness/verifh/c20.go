package verifh

import (
	rt "github.com/protobom/protobom/internal/verifrt"
	"github.com/protobom/protobom/pkg/sbom"
	"github.com/protobom/protobom/pkg/storage"
)

// C20: crash atomicity of Store. The crash point (before / after every mutating file-system call) and the number of
// bytes of a write that reached the file before the process died are decision / solver variables of the file-system
// model; after the crash the harness continues "in a fresh process" on the surviving file-system state.

func c20run(overwrite bool) {
	id := rt.NondetString("id")
	rt.Assume(id != "")
	oldName, newName := "old-"+rt.NondetString("oldname"), "new-"+rt.NondetString("newname")
	other := c19doc("other")
	rt.Assume(rt.And(other.Metadata.Id != "", other.Metadata.Id != id))
	// natively the torn length is not known in advance: the replay tries every length (one scratch directory each);
	// in the engine there is one iteration and the length is a solver variable
	for it := 0; it < rt.CrashIterations(); it++ {
		fs := storage.NewFileSystem()
		fs.Options.Path = rt.FSDirN(it)
		oldDoc := &sbom.Document{Metadata: &sbom.Metadata{Id: id, Version: "1", Name: oldName},
			NodeList: &sbom.NodeList{Nodes: []*sbom.Node{{Id: "n", Name: "old"}}, RootElements: []string{"n"}}}
		newDoc := &sbom.Document{Metadata: &sbom.Metadata{Id: id, Version: "2", Name: newName},
			NodeList: &sbom.NodeList{Nodes: []*sbom.Node{{Id: "n", Name: "new"}}, RootElements: []string{"n"}}}
		if fs.Store(other, nil) != nil {
			rt.Assert(false, "C20.setup")
			return
		}
		if overwrite && fs.Store(oldDoc, nil) != nil {
			rt.Assert(false, "C20.setup")
			return
		}
		noClobber := rt.NondetChoice("noclobber", 2) == 1
		crashed := rt.CrashDuringK(it, func() { fs.Store(newDoc, &storage.StoreOptions{NoClobber: noClobber}) })
		// a fresh process
		fs2 := storage.NewFileSystem()
		fs2.Options.Path = fs.Options.Path
		var got *sbom.Document
		var err error
		exited := rt.Exits(func() { got, err = fs2.Retrieve(id, nil) })
		rt.Assert(!exited, "C20.noexit")
		isNew := docSame(got, newDoc)
		isOld := rt.And(overwrite, docSame(got, oldDoc))
		if err == nil {
			rt.Assert(rt.Or(isNew, isOld), "C20.oldnewerror")
			if !crashed {
				if noClobber && overwrite {
					rt.Assert(isOld, "C20.completed") // refused: the existing entry stays
				} else {
					rt.Assert(isNew, "C20.completed")
				}
			}
		} else {
			rt.Assert(crashed, "C20.completed")
		}
		o, oerr := fs2.Retrieve(other.Metadata.Id, nil)
		rt.Assert(oerr == nil && docSame(o, other), "C20.other")
	}
}

func H_C20_FirstStore() { c20run(false) }
func H_C20_Overwrite()  { c20run(true) }

// H_C20_StoreAfterCrash: what an interrupted store leaves behind (temporary files, a torn entry) must not leak into a
// later, completed store of the same identifier: the retrieve after it returns exactly that document.
func H_C20_StoreAfterCrash() {
	id := rt.NondetString("id")
	rt.Assume(id != "")
	for it := 0; it < rt.CrashIterations(); it++ {
		fs := storage.NewFileSystem()
		fs.Options.Path = rt.FSDirN(it)
		mk := func(ver, name string, nodes int) *sbom.Document {
			d := &sbom.Document{Metadata: &sbom.Metadata{Id: id, Version: ver, Name: name}, NodeList: &sbom.NodeList{RootElements: []string{"n0"}}}
			for i := 0; i < nodes; i++ {
				d.NodeList.Nodes = append(d.NodeList.Nodes, &sbom.Node{Id: "n" + string(rune('0'+i)), Name: name})
			}
			return d
		}
		first, big, small := mk("1", "first", 1), mk("2", "interrupted-with-a-long-name", 3), mk("3", "s", 1)
		if fs.Store(first, nil) != nil {
			rt.Assert(false, "C20.setup")
			return
		}
		rt.CrashDuringK(it, func() { fs.Store(big, nil) })
		fs2 := storage.NewFileSystem()
		fs2.Options.Path = fs.Options.Path
		if err := fs2.Store(small, nil); err != nil {
			continue // refusing is acceptable; returning something else afterwards is not
		}
		got, err := fs2.Retrieve(id, nil)
		rt.Assert(err == nil && docSame(got, small), "C20.storeaftercrash")
	}
}
