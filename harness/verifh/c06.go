package verifh

import (
	rt "github.com/protobom/protobom/internal/verifrt"
	"github.com/protobom/protobom/pkg/formats"
	"github.com/protobom/protobom/pkg/sbom"
	"github.com/protobom/protobom/pkg/writer"
)

// C06: format detection. The JSON text layer is cut at the value tree (see DESIGN 2.8.1): what is decided is the
// decision table over the decoded top-level declaration, the line sniffer over text lines, the rewind contract, and
// the agreement between what the writer emits and what the sniffer reports.

func optStr(name string) *rt.J {
	if rt.NondetChoice(name+"present", 2) == 0 {
		return nil
	}
	return jStr(rt.NondetString(name))
}

func H_C06_Table() {
	bf, sv, xv := optStr("bomFormat"), optStr("specVersion"), optStr("spdxVersion")
	// a version written as a JSON number is not a declaration (the fields are strings)
	numeric := rt.NondetChoice("numericversion", 3)
	switch numeric {
	case 1:
		sv = &rt.J{Kind: 2, Lit: "1.5"}
	case 2:
		xv = &rt.J{Kind: 2, N: 2}
	}
	doc := jObj(jm{"bomFormat", bf}, jm{"specVersion", sv}, jm{"spdxVersion", xv}, jm{"name", jStr(rt.NondetString("other"))})
	s := rt.NewJSONStream(doc)
	f, err := (&formats.Sniffer{}).SniffReader(s)
	rt.Assert(s.AtStart(), "C06.offset0")
	isCDX := rt.StrEqualFold(jS(bf), "cyclonedx")
	want := formats.Format("")
	cdxWant := rt.IteStr(jS(sv) == "1.3", string(formats.CDX13JSON), rt.IteStr(jS(sv) == "1.4", string(formats.CDX14JSON), rt.IteStr(jS(sv) == "1.5", string(formats.CDX15JSON), "")))
	spdxWant := rt.IteStr(jS(xv) == "SPDX-2.3", string(formats.SPDX23JSON), rt.IteStr(jS(xv) == "SPDX-2.2", string(formats.SPDX22JSON), ""))
	want = formats.Format(rt.IteStr(isCDX, cdxWant, spdxWant))
	if numeric == 0 {
		rt.Assert(f == want, "C06.onlyifdeclared")
		rt.Assert(rt.Iff(err == nil, want != ""), "C06.errorotherwise")
	} else {
		// a member of the wrong JSON type makes the declaration unreadable: an error is acceptable, a format is
		// acceptable only if it is the declared one
		rt.Assert(rt.Implies(f != "", f == want), "C06.onlyifdeclared")
		rt.Assert(rt.Iff(err == nil, f != ""), "C06.errorotherwise")
	}
	if err == nil {
		ff := f
		rt.Assert(rt.And(ff.Encoding() == "json", rt.Implies(isCDX, rt.And(ff.Type() == "cyclonedx", ff.Version() == jS(sv))),
			rt.Implies(rt.Not(isCDX), ff.Type() == "spdx")), "C06.accessors")
	}
}

func H_C06_Lines() {
	n := rt.NondetLen("nlines", rt.Bound("L", 2, 3))
	var lines []string
	for i := 0; i < n; i++ {
		lines = append(lines, rt.NondetString("line"))
	}
	s := rt.NewTextStream(lines...)
	f, err := (&formats.Sniffer{}).SniffReader(s)
	rt.Assert(s.AtStart(), "C06.offset0")
	rt.Assert(rt.Iff(err == nil, f != ""), "C06.lines.formatorerror")
	declared := false
	full := false
	for _, l := range lines {
		declared = rt.Or(declared, rt.StrContains(l, "SPDXVersion:"))
		full = rt.Or(full, rt.And(rt.StrContains(l, "SPDXVersion:"), rt.Or(rt.StrContains(l, "SPDX-2.2"), rt.StrContains(l, "SPDX-2.3"))))
	}
	// a format is reported only if a declaration line exists, and then it is the tag-value SPDX format
	rt.Assert(rt.Implies(f != "", rt.And(declared, rt.Or(f == formats.SPDX23TV, f == formats.SPDX22TV))), "C06.lines.onlyifdeclared")
	rt.Assert(rt.Implies(full, f != ""), "C06.lines.detected")
}

func H_C06_SeekFails() {
	doc := jObj(jm{"bomFormat", jStr("CycloneDX")}, jm{"specVersion", jStr(rt.NondetString("v"))})
	s := rt.NewJSONStream(doc)
	s.FailSeek(true)
	panicked := rt.Panics(func() { (&formats.Sniffer{}).SniffReader(s) })
	rt.Assert(!panicked, "C06.seekfail.nopanic")
}

var c06formats = []formats.Format{formats.SPDX23JSON, formats.CDX13JSON, formats.CDX14JSON, formats.CDX15JSON}

func c06doc() *sbom.Document {
	root := &sbom.Node{Id: rt.NondetString("rootid"), Name: rt.NondetString("rootname")}
	child := &sbom.Node{Id: rt.NondetString("childid"), Name: rt.NondetString("childname"), Version: rt.NondetString("ver")}
	rt.Assume(rt.And(root.Id != child.Id, root.Id != "", child.Id != "", rt.Not(rt.StrHasPrefix(root.Id, "protobom-")), rt.Not(rt.StrHasPrefix(child.Id, "protobom-"))))
	return &sbom.Document{Metadata: &sbom.Metadata{Id: rt.NondetString("docid"), Version: "1", Name: rt.NondetString("docname")},
		NodeList: &sbom.NodeList{Nodes: []*sbom.Node{root, child}, RootElements: []string{root.Id},
			Edges: []*sbom.Edge{{From: root.Id, Type: sbom.Edge_contains, To: []string{child.Id}}}}}
}

func H_C06_WriterAgreement() {
	f := c06formats[rt.NondetChoice("format", len(c06formats))]
	s := rt.NewStream()
	w := writer.New(writer.WithFormat(f))
	w.Options.RenderOptions.Indent = rt.NondetInt("indent", 0, 8)
	if err := w.WriteStream(c06doc(), s); err != nil {
		rt.Assert(false, "C06.writer.noerror")
		return
	}
	rt.Assert(s.Wrote(), "C06.writer.wrote")
	s.Rewind()
	got, err := (&formats.Sniffer{}).SniffReader(s)
	rt.Assert(err == nil && got == f, "C06.writer.agrees")
	rt.Assert(s.AtStart(), "C06.offset0")
}

// H_C06_LinesTwice: detection does not depend on what was sniffed before (no scratch state survives a call).
func H_C06_LinesTwice() {
	first := rt.NewTextStream(rt.NondetString("first"))
	(&formats.Sniffer{}).SniffReader(first)
	line := rt.NondetString("second")
	second := rt.NewTextStream(line)
	f, err := (&formats.Sniffer{}).SniffReader(second)
	rt.Assert(rt.Iff(err == nil, f != ""), "C06.lines.formatorerror")
	rt.Assert(rt.Implies(f != "", rt.StrContains(line, "SPDXVersion:")), "C06.lines.onlyifdeclared")
}

