package verifh

import (
	rt "github.com/protobom/protobom/internal/verifrt"
	"github.com/protobom/protobom/pkg/native"
	"github.com/protobom/protobom/pkg/native/serializers"
	"github.com/protobom/protobom/pkg/sbom"
)

// C11: read-only / value-returning operations never store into memory reachable from their operands.
// The write-set monitor (verifrt.Freeze) turns every store into operand memory - including an append into an
// operand slice's spare capacity and a sort that swaps elements - into a violation on that path. Which stores
// happen depends on the data (a sort only swaps when elements are out of order), so the order-relevant values
// are symbolic. The concurrency clause follows: operations that perform no store into shared operand memory on
// any path cannot race with each other.

func withSpare(s []string, p string) []string {
	spare := rt.NondetChoice(p+"spare", 2)
	out := make([]string, len(s), len(s)+spare)
	copy(out, s)
	return out
}

// c11list: three fully populated nodes, two edges, two roots; slices may carry spare capacity. With sym the
// order-relevant values (roots, edge targets, one licence pair) are symbolic, otherwise concrete and unsorted.
func c11list(p string, sym bool) *sbom.NodeList {
	val := func(name, conc string) string {
		if sym {
			return rt.NondetString(p + name)
		}
		return conc
	}
	nl := &sbom.NodeList{}
	for i, id := range []string{"a", "b", "c"} {
		n := sentinelNode(id, "a")
		n.Type = sbom.Node_PACKAGE
		if i == 0 {
			n.Licenses = []string{val("lic", "MIT"), val("lic", "Apache-2.0")}
		}
		n.Identifiers = map[int32]string{purlKey: "pkg:npm/" + id + "@1", int32(sbom.SoftwareIdentifierType_CPE23): "cpe:" + id}
		n.Hashes = map[int32]string{int32(sbom.HashAlgorithm_SHA1): "s1" + id, int32(sbom.HashAlgorithm_SHA256): "s256" + id}
		nl.Nodes = append(nl.Nodes, n)
	}
	nl.Edges = []*sbom.Edge{
		{Type: sbom.Edge_contains, From: "a", To: withSpare([]string{val("to", "c"), val("to", "b")}, p+"to")},
		{Type: sbom.Edge_dependsOn, From: "b", To: withSpare([]string{"c"}, p+"to2")},
	}
	nl.RootElements = withSpare([]string{val("root", "b"), val("root", "a")}, p+"root")
	return nl
}

func H_C11_ListEqual() {
	a, b := c11list("a", true), c11list("b", false)
	rt.Freeze("C11.NodeList.Equal.nowrite", a, b)
	a.Equal(b)
	rt.Thaw()
}

func H_C11_ListCopy() {
	a := c11list("a", true)
	rt.Freeze("C11.NodeList.Copy.nowrite", a)
	a.Copy()
	rt.Thaw()
}

func H_C11_Union() {
	a, b := c11list("a", true), c11list("b", false)
	rt.Freeze("C11.NodeList.Union.nowrite", a, b)
	a.Union(b)
	rt.Thaw()
}

func H_C11_Intersect() {
	a, b := c11list("a", true), c11list("b", false)
	rt.Freeze("C11.NodeList.Intersect.nowrite", a, b)
	a.Intersect(b)
	rt.Thaw()
}

func H_C11_Lookups() {
	a := c11list("a", true)
	q := rt.NondetString("q")
	doc := &sbom.Document{Metadata: &sbom.Metadata{Id: "d"}, NodeList: a}
	rt.Freeze("C11.lookups.nowrite", doc)
	a.GetNodeByID(q)
	a.GetNodesByName(q)
	a.GetNodesByIdentifier("purl", q)
	a.GetRootNodes()
	doc.GetRootNodes()
	a.GetNodesByPurlType("npm")
	a.GetEdgeByType(q, sbom.Edge_contains)
	rt.Thaw()
}

func H_C11_Match() {
	a := c11list("a", true)
	probe := sentinelNode("p", "a")
	probe.Type = sbom.Node_PACKAGE
	probe.Hashes = map[int32]string{int32(sbom.HashAlgorithm_SHA1): rt.NondetString("psha1")}
	probe.Identifiers = map[int32]string{purlKey: rt.NondetString("ppurl")}
	rt.Freeze("C11.GetMatchingNode.nowrite", a, probe)
	a.GetMatchingNode(probe)
	rt.Thaw()
}

func H_C11_Extract() {
	a := c11list("a", true)
	start := rt.NondetString("start")
	rt.Freeze("C11.extract.nowrite", a)
	a.NodeGraph(start)
	a.NodeSiblings(start)
	a.NodeDescendants(start, 2)
	rt.Thaw()
}

func H_C11_Node() {
	n1, n2 := sentinelNode("n", "a"), sentinelNode("n", "b")
	f := rt.NondetChoice("field", numNodeFields)
	fillField(n1, f, "x", rt.Bound("K", 1, 2))
	rt.Freeze("C11.Node.nowrite", n1, n2)
	n1.Equal(n2)
	n1.Checksum()
	n1.Copy()
	n1.Diff(n2)
	n1.Purl()
	n1.HashesMatch(n2.Hashes)
	rt.Thaw()
}

func H_C11_EdgePersonExtRef() {
	e1 := &sbom.Edge{Type: sbom.Edge_contains, From: "a", To: withSpare([]string{rt.NondetString("to"), rt.NondetString("to"), rt.NondetString("to")}, "to")}
	e2 := &sbom.Edge{Type: sbom.Edge_contains, From: "a", To: []string{rt.NondetString("to2"), rt.NondetString("to2")}}
	p := &sbom.Person{Name: "p", Contacts: []*sbom.Person{{Name: "c1", Contacts: []*sbom.Person{{Name: "cc"}}}, {Name: "c2"}}}
	x := &sbom.ExternalReference{Url: "u", Hashes: map[int32]string{1: "h"}}
	rt.Freeze("C11.Edge.nowrite", e1, e2)
	e1.Equal(e2)
	e1.Copy()
	e1.PointsTo(rt.NondetString("q"))
	rt.Thaw()
	rt.Freeze("C11.Person.Copy.nowrite", p)
	p.Copy()
	rt.Thaw()
	rt.Freeze("C11.ExternalReference.Copy.nowrite", x)
	x.Copy()
	rt.Thaw()
}

// H_C11_UnionGeneral: symbolic identifiers on both sides (repeated ids inside an operand included), every node
// carrying distinct attribute values, so that any Update/Augment applied to an operand's own node is a visible store.
func H_C11_UnionGeneral() {
	mk := func(p string, n int) *sbom.NodeList {
		nl := &sbom.NodeList{}
		for i := 0; i < n; i++ {
			nd := sentinelNode(rt.NondetString(p+"id"), p)
			nd.Name = p + "-name-" + string(rune('0'+i))
			nl.Nodes = append(nl.Nodes, nd)
		}
		return nl
	}
	a, b := mk("a", rt.Bound("NA", 1, 2)), mk("b", rt.Bound("NB", 2, 3))
	rt.Freeze("C11.NodeList.Union.nowrite", a, b)
	a.Union(b)
	rt.Thaw()
	rt.Freeze("C11.NodeList.Intersect.nowrite", a, b)
	a.Intersect(b)
	rt.Thaw()
}

// c11doc: a single-rooted document whose edges include repeated and several targets, from root and non-root nodes.
func c11doc() *sbom.Document {
	nl := c11list("d", false)
	nl.RootElements = []string{"a"}
	x, y := rt.NondetString("dto"), rt.NondetString("dto")
	nl.Edges = []*sbom.Edge{
		{Type: sbom.Edge_contains, From: "a", To: withSpare([]string{"b"}, "c")},
		{Type: sbom.Edge_dependsOn, From: "b", To: withSpare([]string{x, y, "c"}, "dep")},
	}
	return &sbom.Document{Metadata: &sbom.Metadata{Id: "doc", Version: "1", Name: "n"}, NodeList: nl}
}

func H_C11_SerializeCDX() {
	doc := c11doc()
	rt.Freeze("C11.CDX.Serialize.nowrite", doc)
	serializers.NewCDX("1.5", "json").Serialize(doc, &native.SerializeOptions{}, nil)
	rt.Thaw()
}

func H_C11_SerializeSPDX() {
	doc := c11doc()
	rt.Freeze("C11.SPDX23.Serialize.nowrite", doc)
	serializers.NewSPDX23().Serialize(doc, &native.SerializeOptions{}, nil)
	rt.Thaw()
}

// H_C11_NodeLists: set-valued attributes with two symbolic elements on the receiver and one shared with the argument
// (a removed element behind a kept one), spare capacity included: Diff / Equal / Checksum must not store into either.
func H_C11_NodeLists() {
	n1, n2 := sentinelNode("n", "a"), sentinelNode("n", "b")
	x, y := rt.NondetString("x"), rt.NondetString("y")
	switch rt.NondetChoice("field", 4) {
	case 0:
		n1.Licenses, n2.Licenses = withSpare([]string{x, y}, "l"), []string{x}
	case 1:
		n1.Attribution, n2.Attribution = withSpare([]string{x, y}, "l"), []string{x}
	case 2:
		n1.FileTypes, n2.FileTypes = withSpare([]string{x, y}, "l"), []string{y}
	case 3:
		n1.PrimaryPurpose, n2.PrimaryPurpose = []sbom.Purpose{sbom.Purpose_LIBRARY, sbom.Purpose_APPLICATION}, []sbom.Purpose{sbom.Purpose_LIBRARY}
	}
	rt.Freeze("C11.Node.nowrite", n1, n2)
	n1.Diff(n2)
	n2.Diff(n1)
	n1.Equal(n2)
	n1.Checksum()
	rt.Thaw()
}

// H_C11_Contacts: a supplier with two contacts whose names are symbolic (any order), also nested one level deeper.
func H_C11_Contacts() {
	n1, n2 := sentinelNode("n", "a"), sentinelNode("n", "b")
	mk := func(p string) *sbom.Person {
		return &sbom.Person{Name: "org", Contacts: []*sbom.Person{{Name: rt.NondetString(p + "c"), Contacts: []*sbom.Person{{Name: rt.NondetString(p + "cc")}, {Name: rt.NondetString(p + "cc")}}},
			{Name: rt.NondetString(p + "c")}}}
	}
	if rt.NondetChoice("which", 2) == 0 {
		n1.Suppliers, n2.Suppliers = []*sbom.Person{mk("a")}, []*sbom.Person{mk("b")}
	} else {
		n1.Originators, n2.Originators = []*sbom.Person{mk("a")}, []*sbom.Person{mk("b")}
	}
	nl1, nl2 := &sbom.NodeList{Nodes: []*sbom.Node{n1}}, &sbom.NodeList{Nodes: []*sbom.Node{n2}}
	rt.Freeze("C11.Node.nowrite", nl1, nl2)
	n1.Equal(n2)
	n1.Checksum()
	n1.Diff(n2)
	n1.Copy()
	nl1.Equal(nl2)
	rt.Thaw()
}

// H_C11_UnionParallel: the argument carries two edges with the same source and type that the receiver lacks (and the
// other way round): merging them in the result must not extend the operand's own edges.
func H_C11_UnionParallel() {
	mk := func(p string, parallel bool) *sbom.NodeList {
		nl := &sbom.NodeList{}
		for _, id := range []string{"a", "b", "c"} {
			nl.Nodes = append(nl.Nodes, sentinelNode(id, p))
		}
		if parallel {
			nl.Edges = []*sbom.Edge{{Type: sbom.Edge_contains, From: "a", To: withSpare([]string{"b"}, p+"t1")}, {Type: sbom.Edge_contains, From: "a", To: withSpare([]string{"c"}, p+"t2")}}
		}
		return nl
	}
	k := rt.NondetChoice("who", 3)
	a, b := mk("a", k != 0), mk("b", k != 1)
	rt.Freeze("C11.NodeList.Union.nowrite", a, b)
	a.Union(b)
	rt.Thaw()
	rt.Freeze("C11.NodeList.Intersect.nowrite", a, b)
	a.Intersect(b)
	rt.Thaw()
	c := cloneList(b)
	rt.Freeze("C11.NodeList.Add.nowrite", b)
	a.Add(b)
	rt.Thaw()
	_ = c
}

// H_C11_SerializeFiles: file and package nodes whose text attributes are arbitrary symbolic strings (anything a
// serializer might normalise in place: white space, case), written by every serializer.
func H_C11_SerializeFiles() {
	f := &sbom.Node{Id: "f", Type: sbom.Node_FILE, Name: rt.NondetString("name"), Licenses: []string{rt.NondetString("lic"), rt.NondetString("lic")},
		FileTypes: []string{rt.NondetString("ft")}, Attribution: []string{rt.NondetString("attr")}, LicenseConcluded: rt.NondetString("lc"), Copyright: rt.NondetString("cr")}
	p := &sbom.Node{Id: "p", Type: sbom.Node_PACKAGE, Name: rt.NondetString("name"), Licenses: []string{rt.NondetString("lic")},
		Attribution: []string{rt.NondetString("attr")}, LicenseConcluded: rt.NondetString("lc"), Copyright: rt.NondetString("cr"),
		Suppliers: []*sbom.Person{{Name: rt.NondetString("sup")}}}
	doc := &sbom.Document{Metadata: &sbom.Metadata{Id: "doc", Version: "1", Name: "n"},
		NodeList: &sbom.NodeList{Nodes: []*sbom.Node{p, f}, RootElements: []string{"p"}, Edges: []*sbom.Edge{{Type: sbom.Edge_contains, From: "p", To: []string{"f"}}}}}
	rt.Freeze("C11.Serialize.nowrite", doc)
	if rt.NondetChoice("fmt", 2) == 0 {
		serializers.NewSPDX23().Serialize(doc, &native.SerializeOptions{}, nil)
	} else {
		serializers.NewCDX("1.5", "json").Serialize(doc, &native.SerializeOptions{}, nil)
	}
	rt.Thaw()
}

// H_C11_Concurrent: the consequence the property draws: two read-only operations on one shared document at the same
// time are free of data races. Decided by the lock-set monitor (any unsynchronised store into memory that existed
// before the two calls started - operands or package-level scratch state - conflicts with the other call).
func H_C11_Concurrent() {
	nl := c11list("s", false)
	other := c11list("o", false)
	op := func(i int) func() {
		switch i {
		case 0:
			return func() { rt.Call(func() { nl.Equal(other) }) }
		case 1:
			return func() { rt.Call(func() { nl.Edges[0].Equal(other.Edges[0]) }) }
		case 2:
			return func() { rt.Call(func() { nl.Nodes[0].Equal(other.Nodes[0]); nl.Nodes[0].Checksum() }) }
		case 3:
			return func() { rt.Call(func() { nl.Nodes[0].Diff(other.Nodes[0]) }) }
		case 4:
			return func() { rt.Call(func() { nl.Union(other); nl.Intersect(other) }) }
		case 5:
			return func() { rt.Call(func() { nl.NodeGraph("a"); nl.NodeDescendants("a", 2); nl.GetNodeByID("b") }) }
		}
		return func() { rt.Call(func() { nl.Copy() }) }
	}
	i := rt.NondetChoice("op1", 7)
	j := rt.NondetChoice("op2", 7)
	if j < i {
		return
	}
	rt.Par2("C11.race", op(i), op(j))
}
