// Package verifh holds the verification harnesses. It is injected into the protobom module as the
// virtual package internal/verifh (build overlay), executed symbolically by gosym and natively for replay.
// Harnesses use the exported API of the code under test only. Oracles are branch-free (verifrt.And/Or/...):
// Go's && and || would fork the symbolic execution.
package verifh

import (
	rt "github.com/protobom/protobom/internal/verifrt"
	"github.com/protobom/protobom/pkg/sbom"
)

func edgeType(i int) sbom.Edge_Type {
	switch i {
	case 0:
		return sbom.Edge_contains
	case 1:
		return sbom.Edge_dependsOn
	case 2:
		return sbom.Edge_UNKNOWN
	}
	return sbom.Edge_Type(977) // a number without a name
}

// mkList builds a node list with between nmin and nmax nodes, up to e edges with 1..t targets and up to r
// root elements. Every identifier and endpoint is an unconstrained symbolic string; nty = number of edge types.
func mkList(p string, nmin, nmax, e, t, r, nty int) *sbom.NodeList {
	nl := &sbom.NodeList{}
	n := nmin + rt.NondetLen(p+"n", nmax-nmin)
	for i := 0; i < n; i++ {
		nl.Nodes = append(nl.Nodes, &sbom.Node{Id: rt.NondetString(p + "id")})
	}
	ne := rt.NondetLen(p+"ne", e)
	for i := 0; i < ne; i++ {
		ed := &sbom.Edge{From: rt.NondetString(p + "from"), Type: edgeType(rt.NondetChoice(p+"ty", nty))}
		nt := 1 + rt.NondetLen(p+"nt", t-1)
		for j := 0; j < nt; j++ {
			ed.To = append(ed.To, rt.NondetString(p+"to"))
		}
		nl.Edges = append(nl.Edges, ed)
	}
	nr := rt.NondetLen(p+"nr", r)
	for i := 0; i < nr; i++ {
		nl.RootElements = append(nl.RootElements, rt.NondetString(p+"root"))
	}
	return nl
}

func ids(nl *sbom.NodeList) []string {
	out := []string{}
	for _, n := range nl.Nodes {
		out = append(out, n.Id)
	}
	return out
}

// wf: ids pairwise distinct, every edge endpoint and every root element names a node.
func wf(nl *sbom.NodeList) bool {
	is := ids(nl)
	ok := rt.StrsDistinct(is)
	for _, e := range nl.Edges {
		ok = rt.And(ok, rt.StrIn(e.From, is))
		for _, to := range e.To {
			ok = rt.And(ok, rt.StrIn(to, is))
		}
	}
	for _, r := range nl.RootElements {
		ok = rt.And(ok, rt.StrIn(r, is))
	}
	return ok
}

// norm: at most one edge per (source, type), no repeated target.
func norm(nl *sbom.NodeList) bool {
	ok := true
	for i, e := range nl.Edges {
		ok = rt.And(ok, rt.StrsDistinct(e.To))
		for j := i + 1; j < len(nl.Edges); j++ {
			f := nl.Edges[j]
			ok = rt.And(ok, rt.Not(rt.And(e.From == f.From, e.Type == f.Type)))
		}
	}
	return ok
}

// hasTriple: some edge of nl has this source, type and target.
func hasTriple(nl *sbom.NodeList, from string, ty sbom.Edge_Type, to string) bool {
	found := false
	for _, f := range nl.Edges {
		found = rt.Or(found, rt.And(f.From == from, f.Type == ty, rt.StrIn(to, f.To)))
	}
	return found
}

func noNilNodes(nl *sbom.NodeList) bool {
	for _, n := range nl.Nodes {
		if n == nil {
			return false
		}
	}
	for _, e := range nl.Edges {
		if e == nil {
			return false
		}
	}
	return true
}

// plainRegion declares the listed region "some value is not a plain word" and splits the exploration on it by
// assumption, so that outside the region every value is known to be a plain word on the path (the string reasoning of
// the engine then settles the flattened-string equations instead of leaving them to the solvers as one big query).
func plainRegion(sep bool) {
	if rt.NondetChoice("someValueNotPlain", 2) == 1 {
		rt.Assume(sep)
	} else {
		rt.Assume(rt.Not(sep))
	}
	rt.Region("valueNotPlainWord", sep)
}
