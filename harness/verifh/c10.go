package verifh

import (
	rt "github.com/protobom/protobom/internal/verifrt"
	"github.com/protobom/protobom/pkg/sbom"
)

// C10: intersection laws. Operands may be ill-formed (unconstrained symbolic endpoints and roots).

func c10operand(p string) *sbom.NodeList {
	n := rt.Bound("N", 2, 2)
	e := rt.Bound("E", 1, 1)
	t := rt.Bound("T", 1, 2)
	r := rt.Bound("R", 1, 1)
	return mkList(p, 0, n, e, t, r, 2)
}

func intersectExact(r, a, b *sbom.NodeList, site string) {
	ir := ids(r)
	nodes := true
	for _, x := range ir {
		nodes = rt.And(nodes, present(a, x), present(b, x))
	}
	for _, x := range ids(a) {
		nodes = rt.And(nodes, rt.Implies(present(b, x), rt.StrIn(x, ir)))
	}
	rt.Assert(nodes, site+".nodes")
	upper, lower := true, true
	for _, x := range r.RootElements {
		upper = rt.And(upper, rt.StrIn(x, ir), rt.Or(rt.StrIn(x, a.RootElements), rt.StrIn(x, b.RootElements)))
	}
	rt.Assert(upper, site+".roots.upper")
	for _, x := range a.RootElements {
		lower = rt.And(lower, rt.Implies(rt.And(rt.StrIn(x, b.RootElements), rt.StrIn(x, ir)), rt.StrIn(x, r.RootElements)))
	}
	rt.Assert(lower, site+".roots.lower")
	eu, el := true, true
	for _, e := range r.Edges {
		eu = rt.And(eu, rt.StrIn(e.From, ir))
		for _, to := range e.To {
			eu = rt.And(eu, rt.StrIn(to, ir), rt.Or(hasTriple(a, e.From, e.Type, to), hasTriple(b, e.From, e.Type, to)))
		}
	}
	rt.Assert(eu, site+".edges.upper")
	for _, e := range a.Edges {
		for _, to := range e.To {
			both := rt.And(hasTriple(b, e.From, e.Type, to), rt.StrIn(e.From, ir), rt.StrIn(to, ir))
			el = rt.And(el, rt.Implies(both, hasTriple(r, e.From, e.Type, to)))
		}
	}
	rt.Assert(el, site+".edges.lower")
}

func H_C10_Exact() {
	a := c10operand("a")
	b := c10operand("b")
	sa, sb := cloneList(a), cloneList(b)
	if rt.Thorough() {
		rt.MapOrderAll(true)
	}
	r := a.Intersect(b)
	intersectExact(r, sa, sb, "C10.intersect")
}

// rootsAmong: the roots of nl that name a node of nl.
func sameSetsRestrictedRoots(x, y *sbom.NodeList) bool {
	ok := rt.StrSetEq(ids(x), ids(y))
	for _, p := range [][2]*sbom.NodeList{{x, y}, {y, x}} {
		for _, r := range p[0].RootElements {
			ok = rt.And(ok, rt.Implies(present(p[0], r), rt.StrIn(r, p[1].RootElements)))
		}
		for _, e := range p[0].Edges {
			for _, to := range e.To {
				ok = rt.And(ok, rt.Implies(rt.And(present(p[0], e.From), present(p[0], to)), hasTriple(p[1], e.From, e.Type, to)))
			}
		}
	}
	return ok
}

func H_C10_Laws() {
	a := c10operand("a")
	b := c10operand("b")
	rt.Assert(sameSetsRestrictedRoots(a.Intersect(a), a), "C10.law.idempotent")
	rt.Assert(sameSetsRestrictedRoots(a.Intersect(b), b.Intersect(a)), "C10.law.commutative")
	rt.Assert(rt.StrSetEq(ids(a.Intersect(a.Union(b))), ids(a)), "C10.law.absorption")
	e := a.Intersect(sbom.NewNodeList())
	e2 := sbom.NewNodeList().Intersect(a)
	rt.Assert(len(e.Nodes) == 0 && len(e.Edges) == 0 && len(e.RootElements) == 0 && len(e2.Nodes) == 0 && len(e2.Edges) == 0 && len(e2.RootElements) == 0, "C10.law.empty")
}

func H_C10_Attr() {
	f := 2 + rt.NondetChoice("field", numNodeFields-2)
	k := rt.Bound("K", 1, 2)
	na := sentinelNode("n", "a")
	nb := sentinelNode("n", "b")
	fillField(na, f, "a", k)
	fillField(nb, f, "b", k)
	fillField(na, fType, "a", k)
	fillField(nb, fType, "b", k)
	a := &sbom.NodeList{Nodes: []*sbom.Node{na}}
	b := &sbom.NodeList{Nodes: []*sbom.Node{nb}}
	wantA, wantB := cloneNode(na), cloneNode(nb)
	r := a.Intersect(b)
	if len(r.Nodes) != 1 {
		rt.Assert(false, "C10.attr.onenode")
		return
	}
	res := r.Nodes[0]
	rt.Assert(rt.And(res.Id == wantA.Id, res.Type == wantA.Type), "C10.attr.identity")
	for g := 2; g < numNodeFields; g++ {
		ok := rt.Or(rt.And(rt.Not(fieldEmpty(wantB, g)), fieldEq(res, wantB, g)), rt.And(fieldEmpty(wantB, g), fieldEq(res, wantA, g)))
		rt.Assert(ok, "C10.attr."+nodeFieldNames[g])
	}
}

// H_C10_SharedNodes: the common case for an intersection - both operands carry the same (distinct) node
// identifiers - and each has an edge of the same type leaving node 0 with 1..2 symbolic targets (they may repeat,
// coincide across operands, dangle). Edge merging must not depend on operand order.
func H_C10_SharedNodes() {
	n := rt.Bound("NS", 3, 3)
	a, b := &sbom.NodeList{}, &sbom.NodeList{}
	for i := 0; i < n; i++ {
		id := rt.NondetString("id")
		a.Nodes = append(a.Nodes, &sbom.Node{Id: id})
		b.Nodes = append(b.Nodes, &sbom.Node{Id: id})
	}
	rt.Assume(rt.StrsDistinct(ids(a)))
	for _, p := range []struct {
		nl *sbom.NodeList
		p  string
	}{{a, "a"}, {b, "b"}} {
		ed := &sbom.Edge{From: p.nl.Nodes[0].Id, Type: sbom.Edge_contains}
		nt := 1 + rt.NondetLen(p.p+"nt", rt.Bound("TS", 1, 2))
		for j := 0; j < nt; j++ {
			ed.To = append(ed.To, rt.NondetString(p.p+"to"))
		}
		p.nl.Edges = append(p.nl.Edges, ed)
	}
	sa, sb := cloneList(a), cloneList(b)
	r := a.Intersect(b)
	intersectExact(r, sa, sb, "C10.shared")
	r2 := sb.Intersect(sa)
	rt.Assert(sameSetsRestrictedRoots(r, r2), "C10.shared.commutative")
}
