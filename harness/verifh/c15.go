package verifh

import (
	rt "github.com/protobom/protobom/internal/verifrt"
	"github.com/protobom/protobom/pkg/sbom"
)

// C15: sub-graph extraction = bounded reachability. The oracle is a reference fixpoint computed branch-free over
// symbolic membership bits; it is order-free, and the input lists are arbitrary symbolic values, so agreement with
// the oracle for every assignment is also independence from node and edge order.

func c15graph(n, e, t, r int) (*sbom.NodeList, []string) {
	a := mkList("g", 1, n, e, t, r, 2)
	is := ids(a)
	rt.Assume(rt.StrsDistinct(is)) // node identifiers are unique; edges and roots may dangle, loop, repeat
	for _, id := range is {
		// the empty string is the library's "no identifier" (AddRootNode ignores it, NodeSiblings("") is nil)
		rt.Assume(id != "")
	}
	return a, is
}

// c15start: the start identifier. The empty string is excluded: NodeSiblings documents it as "no node" (returns nil).
func c15start() string {
	s := rt.NondetString("start")
	rt.Assume(s != "")
	return s
}

// reach computes, for every node index, "reachable from start within `levels` levels" (start = level 1), where a
// root element other than the start node is reached but never traversed through.
func traversable(a *sbom.NodeList, is []string, start string, in []bool) []bool {
	out := make([]bool, len(is))
	for i := range is {
		out[i] = rt.And(in[i], rt.Or(is[i] == start, rt.Not(rt.StrIn(is[i], a.RootElements))))
	}
	return out
}

func reach(a *sbom.NodeList, is []string, start string, levels int) []bool {
	n := len(is)
	isStart := make([]bool, n)
	trav := make([]bool, n)
	for i := 0; i < n; i++ {
		isStart[i] = is[i] == start
		trav[i] = rt.Or(isStart[i], rt.Not(rt.StrIn(is[i], a.RootElements)))
	}
	adj := make([][]bool, n)
	for i := 0; i < n; i++ {
		adj[i] = make([]bool, n)
		for j := 0; j < n; j++ {
			x := false
			for _, e := range a.Edges {
				x = rt.Or(x, rt.And(e.From == is[i], rt.StrIn(is[j], e.To)))
			}
			adj[i][j] = x
		}
	}
	cur := make([]bool, n)
	for i := 0; i < n; i++ {
		cur[i] = isStart[i]
	}
	for l := 1; l < levels; l++ {
		next := make([]bool, n)
		for j := 0; j < n; j++ {
			x := cur[j]
			for i := 0; i < n; i++ {
				x = rt.Or(x, rt.And(cur[i], trav[i], adj[i][j]))
			}
			next[j] = x
		}
		cur = next
	}
	return cur
}

// followedFrom[i]: the traversal followed the edges leaving node i.
func c15check(res, a *sbom.NodeList, is []string, start string, want, followedFrom []bool, site string) {
	ir := ids(res)
	nodes := rt.And(rt.StrsDistinct(ir), rt.StrSubset(ir, is))
	for i := range is {
		nodes = rt.And(nodes, rt.Iff(rt.StrIn(is[i], ir), want[i]))
	}
	rt.Assert(nodes, site+".nodes")
	edges := true
	for _, e := range res.Edges {
		edges = rt.And(edges, rt.StrIn(e.From, ir))
		for _, to := range e.To {
			edges = rt.And(edges, rt.StrIn(to, ir), hasTriple(a, e.From, e.Type, to))
		}
	}
	// every edge the traversal followed (to a returned node) is present
	for _, e := range a.Edges {
		src := false
		for i := range is {
			src = rt.Or(src, rt.And(e.From == is[i], followedFrom[i]))
		}
		for _, to := range e.To {
			edges = rt.And(edges, rt.Implies(rt.And(src, rt.StrIn(to, ir)), hasTriple(res, e.From, e.Type, to)))
		}
	}
	rt.Assert(edges, site+".edges")
	rt.Assert(rt.And(len(res.RootElements) == 1, rt.StrSetEq(res.RootElements, []string{start})), site+".root")
}

func H_C15_NodeGraph() {
	a, is := c15graph(rt.Bound("N", 3, 4), rt.Bound("E", 2, 2), rt.Bound("T", 1, 2), rt.Bound("R", 1, 2))
	start := c15start()
	orig := cloneList(a)
	res := a.NodeGraph(start)
	in := rt.StrIn(start, is)
	if res == nil {
		rt.Assert(rt.Not(in), "C15.graph.found")
		return
	}
	rt.Assert(in, "C15.graph.found")
	want := reach(orig, is, start, len(is)+1)
	for i := range want {
		// other root elements are left out of the full-graph extraction
		want[i] = rt.And(want[i], rt.Or(is[i] == start, rt.Not(rt.StrIn(is[i], orig.RootElements))))
	}
	c15check(res, orig, is, start, want, traversable(orig, is, start, want), "C15.graph")
}

func H_C15_NodeSiblings() {
	a, is := c15graph(rt.Bound("N", 3, 4), rt.Bound("E", 2, 2), rt.Bound("T", 2, 3), rt.Bound("R", 1, 2))
	start := c15start()
	orig := cloneList(a)
	if rt.Thorough() {
		rt.MapOrderAll(true)
	}
	res := a.NodeSiblings(start)
	if res == nil {
		rt.Assert(start == "", "C15.siblings.nil")
		return
	}
	if len(res.Nodes) == 0 {
		rt.Assert(rt.Not(rt.StrIn(start, is)), "C15.siblings.found")
		return
	}
	rt.Assert(rt.StrIn(start, is), "C15.siblings.found")
	c15check(res, orig, is, start, reach(orig, is, start, 2), reach(orig, is, start, 1), "C15.siblings")
}

func H_C15_NodeDescendants() {
	a, is := c15graph(rt.Bound("N", 3, 4), rt.Bound("E", 2, 2), rt.Bound("T", 1, 2), rt.Bound("R", 1, 2))
	c15descendants(a, is, c15start())
}

// H_C15_DescendantsFanout: a structured family one node larger than the general harness can afford in the quick
// tier: exactly NF nodes, edge i leaves node i (so fan-outs chain), 1..2 symbolic targets each (they may coincide,
// dangle, loop back), the start node is node 0, an optional symbolic root element.
func c15fanout(n, maxEdges int) (*sbom.NodeList, []string) {
	a := &sbom.NodeList{}
	for i := 0; i < n; i++ {
		a.Nodes = append(a.Nodes, &sbom.Node{Id: rt.NondetString("gid")})
	}
	is := ids(a)
	rt.Assume(rt.StrsDistinct(is))
	for _, id := range is {
		rt.Assume(id != "")
	}
	ne := 1 + rt.NondetLen("gne", maxEdges)
	for i := 0; i < ne; i++ {
		ed := &sbom.Edge{From: is[i], Type: edgeType(rt.NondetChoice("gty", 2))}
		nt := 1 + rt.NondetLen("gnt", 1)
		for j := 0; j < nt; j++ {
			ed.To = append(ed.To, rt.NondetString("gto"))
		}
		a.Edges = append(a.Edges, ed)
	}
	if rt.NondetChoice("hasroot", 2) == 1 {
		a.RootElements = append(a.RootElements, rt.NondetString("groot"))
	}
	return a, is
}

func H_C15_DescendantsFanout() {
	a, is := c15fanout(rt.Bound("NF", 4, 5), rt.Bound("EF", 1, 2))
	c15descendants(a, is, is[0])
}

// H_C15_Twice: the extraction is also exact when the same list has been used for an earlier extraction (any of the
// three functions, another depth): nothing an extraction does to shared edges may show in a later one.
func H_C15_Twice() {
	a, is := c15fanout(3, rt.Bound("ET", 1, 2))
	orig := cloneList(a)
	switch rt.NondetChoice("earlier", 3) {
	case 0:
		a.NodeDescendants(is[0], 1)
	case 1:
		a.NodeGraph(is[0])
	case 2:
		a.NodeSiblings(is[0])
	}
	c15descendantsRef(a, orig, is, is[0])
}

func c15descendants(a *sbom.NodeList, is []string, start string) {
	c15descendantsRef(a, cloneList(a), is, start)
}

func c15descendantsRef(a, orig *sbom.NodeList, is []string, start string) {
	d := 1 + rt.NondetLen("depth", rt.Bound("D", 2, 4))
	res := a.NodeDescendants(start, d)
	if len(res.Nodes) == 0 {
		rt.Assert(rt.Not(rt.StrIn(start, is)), "C15.descendants.found")
		return
	}
	rt.Assert(rt.StrIn(start, is), "C15.descendants.found")
	c15check(res, orig, is, start, reach(orig, is, start, d), traversable(orig, is, start, reach(orig, is, start, d-1)), "C15.descendants")
}

// monotone in the depth (a separate harness: two traversals double the forks)
func H_C15_DescendantsMonotone() {
	a, is := c15graph(rt.Bound("NM", 3, 3), rt.Bound("EM", 2, 2), rt.Bound("TM", 1, 2), rt.Bound("RM", 1, 1))
	start := c15start()
	rt.Assume(rt.StrIn(start, is))
	d := 1 + rt.NondetLen("depth", 2)
	res := a.NodeDescendants(start, d)
	deeper := a.NodeDescendants(start, d+1)
	rt.Assert(rt.StrSubset(ids(res), ids(deeper)), "C15.descendants.monotone")
}

// H_C15_Interleaved: a node whose outgoing edge records are not adjacent in the stored list (one of another node sits
// between them; different edge types): three stored edges, which the general quick bound (two) cannot have.
func H_C15_Interleaved() {
	a := &sbom.NodeList{}
	for i := 0; i < 3; i++ {
		a.Nodes = append(a.Nodes, &sbom.Node{Id: rt.NondetString("gid")})
	}
	is := ids(a)
	rt.Assume(rt.StrsDistinct(is))
	for _, id := range is {
		rt.Assume(id != "")
	}
	mid := is[1+rt.NondetChoice("mid", 2)]
	a.Edges = []*sbom.Edge{
		{From: is[0], Type: sbom.Edge_contains, To: []string{rt.NondetString("gto")}},
		{From: mid, Type: edgeType(rt.NondetChoice("gty", 2)), To: []string{rt.NondetString("gto")}},
		{From: is[0], Type: sbom.Edge_dependsOn, To: []string{rt.NondetString("gto")}},
	}
	orig := cloneList(a)
	start := is[0]
	switch rt.NondetChoice("fn", 3) {
	case 0:
		res := a.NodeSiblings(start)
		if res == nil || len(res.Nodes) == 0 {
			rt.Assert(false, "C15.siblings.found")
			return
		}
		c15check(res, orig, is, start, reach(orig, is, start, 2), reach(orig, is, start, 1), "C15.siblings")
	case 1:
		res := a.NodeGraph(start)
		if res == nil {
			rt.Assert(false, "C15.graph.found")
			return
		}
		want := reach(orig, is, start, len(is)+1)
		c15check(res, orig, is, start, want, traversable(orig, is, start, want), "C15.graph")
	case 2:
		c15descendantsRef(a, orig, is, start)
	}
}
