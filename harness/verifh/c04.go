package verifh

import (
	rt "github.com/protobom/protobom/internal/verifrt"
	"github.com/protobom/protobom/pkg/formats"
	"github.com/protobom/protobom/pkg/reader"
	"github.com/protobom/protobom/pkg/sbom"
)

// C04: parsers are total. Input: a representative CycloneDX / SPDX document as a JSON value tree with a schema fault
// (null, wrong type, absent, empty, duplicated member) injected at a decision-chosen position - every single fault at
// every position in the quick tier, every pair in the thorough tier. What is decided is that protobom's own
// conversion code (and the interpreted custom unmarshalers of the two libraries) neither panics nor exits and returns
// exactly one of (document with metadata and node list, error). The JSON text decoders themselves are outside.

func cdxComponent(ref, name string, children ...*rt.J) *rt.J {
	c := jObj(jm{"bom-ref", jStr(ref)}, jm{"type", jStr("library")}, jm{"name", jStr(name)}, jm{"version", jStr("1.0")},
		jm{"purl", jStr("pkg:npm/" + name + "@1.0")}, jm{"cpe", jStr("cpe:2.3:a:x:" + name)},
		jm{"hashes", jArr(jObj(jm{"alg", jStr("SHA-256")}, jm{"content", jStr("abc")}))},
		jm{"licenses", jArr(jObj(jm{"license", jObj(jm{"id", jStr("MIT")})}), jObj(jm{"expression", jStr("MIT OR Apache-2.0")}))},
		jm{"externalReferences", jArr(jObj(jm{"url", jStr("https://example.com")}, jm{"type", jStr("vcs")}, jm{"comment", jStr("c")},
			jm{"hashes", jArr(jObj(jm{"alg", jStr("SHA-1")}, jm{"content", jStr("def")}))}))})
	if len(children) > 0 {
		c.Keys = append(c.Keys, "components")
		c.Items = append(c.Items, jArr(children...))
	}
	return c
}

func cdxDoc(version string) *rt.J {
	return jObj(jm{"bomFormat", jStr("CycloneDX")}, jm{"specVersion", jStr(version)}, jm{"serialNumber", jStr("urn:uuid:1")}, jm{"version", jNum(1)},
		jm{"metadata", jObj(
			jm{"component", cdxComponent("root", "app")},
			jm{"lifecycles", jArr(jObj(jm{"phase", jStr("build")}), jObj(jm{"name", jStr("custom")}, jm{"description", jStr("d")}))},
			jm{"tools", jArr(jObj(jm{"name", jStr("tool")}, jm{"version", jStr("1")}))},
			jm{"authors", jArr(jObj(jm{"name", jStr("author")}))})},
		jm{"components", jArr(cdxComponent("liba", "liba", cdxComponent("sub", "sub")), jObj(jm{"type", jStr("file")}, jm{"name", jStr("noref")}))},
		jm{"dependencies", jArr(jObj(jm{"ref", jStr("liba")}, jm{"dependsOn", jArr(jStr("sub"))}))})
}

func spdxDoc() *rt.J {
	pkg := jObj(jm{"SPDXID", jStr("SPDXRef-pkg")}, jm{"name", jStr("pkg")}, jm{"versionInfo", jStr("1.0")}, jm{"downloadLocation", jStr("NOASSERTION")},
		jm{"filesAnalyzed", jBool(false)}, jm{"licenseConcluded", jStr("MIT")}, jm{"copyrightText", jStr("c")}, jm{"primaryPackagePurpose", jStr("LIBRARY")},
		jm{"supplier", jStr("Organization: ACME (acme@example.com)")}, jm{"originator", jStr("Person: Jane")}, jm{"releaseDate", jStr("2023-01-02T03:04:05Z")},
		jm{"checksums", jArr(jObj(jm{"algorithm", jStr("SHA256")}, jm{"checksumValue", jStr("abc")}))},
		jm{"externalRefs", jArr(jObj(jm{"referenceCategory", jStr("PACKAGE-MANAGER")}, jm{"referenceType", jStr("purl")}, jm{"referenceLocator", jStr("pkg:npm/pkg@1.0")}),
			jObj(jm{"referenceCategory", jStr("SECURITY")}, jm{"referenceType", jStr("advisory")}, jm{"referenceLocator", jStr("https://example.com/adv")}))},
		jm{"attributionTexts", jArr(jStr("thanks"))})
	file := jObj(jm{"SPDXID", jStr("SPDXRef-file")}, jm{"fileName", jStr("./a.txt")}, jm{"licenseConcluded", jStr("MIT")}, jm{"licenseInfoInFiles", jArr(jStr("MIT"))},
		jm{"copyrightText", jStr("NONE")}, jm{"fileTypes", jArr(jStr("TEXT"))}, jm{"checksums", jArr(jObj(jm{"algorithm", jStr("SHA1")}, jm{"checksumValue", jStr("def")}))})
	return jObj(jm{"spdxVersion", jStr("SPDX-2.3")}, jm{"dataLicense", jStr("CC0-1.0")}, jm{"SPDXID", jStr("SPDXRef-DOCUMENT")}, jm{"name", jStr("doc")},
		jm{"documentNamespace", jStr("https://example.com/doc")},
		jm{"creationInfo", jObj(jm{"created", jStr("2023-01-02T03:04:05Z")}, jm{"creators", jArr(jStr("Tool: t-1"), jStr("Organization: ACME"))})},
		jm{"documentDescribes", jArr(jStr("SPDXRef-pkg"))},
		jm{"packages", jArr(pkg)}, jm{"files", jArr(file)},
		jm{"relationships", jArr(jObj(jm{"spdxElementId", jStr("SPDXRef-DOCUMENT")}, jm{"relationshipType", jStr("DESCRIBES")}, jm{"relatedSpdxElement", jStr("SPDXRef-pkg")}),
			jObj(jm{"spdxElementId", jStr("SPDXRef-pkg")}, jm{"relationshipType", jStr("CONTAINS")}, jm{"relatedSpdxElement", jStr("SPDXRef-file")}))})
}

// countJ: number of positions (values) in the tree, pre-order.
func countJ(j *rt.J) int {
	n := 1
	for _, it := range j.Items {
		n += countJ(it)
	}
	return n
}

func wrongType(j *rt.J, variant int) *rt.J {
	switch j.Kind {
	case 3: // string
		if variant == 0 {
			return jNum(7)
		}
		return jObj(jm{"x", jStr("y")})
	case 2, 1:
		return jStr("seven")
	case 4: // array
		if variant == 0 {
			return jStr("not-an-array")
		}
		return jObj()
	case 5: // object
		if variant == 0 {
			return jArr(jStr("x"))
		}
		return jStr("not-an-object")
	}
	return jNum(0)
}

// faultJ returns a copy of j with fault applied at pre-order position target (counter threaded through ctr).
// faults: 0 null, 1 wrong type (a), 2 wrong type (b), 3 absent (members / elements), 4 empty, 5 duplicated member / element
func faultJ(j *rt.J, target, fault int, ctr *int) (*rt.J, bool) {
	me := *ctr
	*ctr++
	if me == target {
		switch fault {
		case 0:
			return jNull(), false
		case 1:
			return wrongType(j, 0), false
		case 2:
			return wrongType(j, 1), false
		case 3:
			return nil, true // remove from the parent
		case 4:
			switch j.Kind {
			case 3:
				return jStr(""), false
			case 4:
				return jArr(), false
			case 5:
				return jObj(), false
			}
			return jNull(), false
		default:
			return j, true // duplicate in the parent (flag reused: handled by the caller through fault == 5)
		}
	}
	out := &rt.J{Kind: j.Kind, S: j.S, N: j.N, B: j.B}
	for i, it := range j.Items {
		before := *ctr
		c, flag := faultJ(it, target, fault, ctr)
		hit := before == target
		if hit && fault == 3 {
			continue // absent
		}
		_ = flag
		if c != nil {
			out.Items = append(out.Items, c)
			if j.Kind == 5 {
				out.Keys = append(out.Keys, j.Keys[i])
			}
		}
		if hit && fault == 5 {
			// duplicated: the member / element appears twice, the second time with a different value
			out.Items = append(out.Items, wrongType(it, 1))
			if j.Kind == 5 {
				out.Keys = append(out.Keys, j.Keys[i])
			}
		}
	}
	return out, false
}

func c04parse(doc *rt.J, explicit formats.Format, site string) {
	s := rt.NewJSONStream(doc)
	var d *sbom.Document
	var err error
	// a panic inside the parser is reported by the engine at its source location (one finding per location)
	exited := rt.Exits(func() {
		r := reader.New()
		if explicit == "" {
			d, err = r.ParseStream(s)
		} else {
			d, err = r.ParseStreamWithOptions(s, &reader.Options{Format: explicit})
		}
	})
	rt.Assert(!exited, site+".noexit")
	if exited {
		return
	}
	good := d != nil && d.Metadata != nil && d.NodeList != nil
	rt.Assert(good != (err != nil), site+".exactlyone")
}

func c04inject(doc *rt.J, rounds int) *rt.J {
	for r := 0; r < rounds; r++ {
		n := countJ(doc)
		target := 1 + rt.NondetChoice("position", n-1)
		fault := rt.NondetChoice("fault", 6)
		ctr := 0
		doc, _ = faultJ(doc, target, fault, &ctr)
	}
	return doc
}

func H_C04_CDX() {
	version := []string{"1.5", "1.4", "1.3"}[rt.NondetChoice("version", rt.Bound("V", 1, 3))]
	doc := c04inject(cdxDoc(version), rt.Bound("FAULTS", 1, 2))
	explicit := formats.Format("")
	if rt.NondetChoice("explicit", 2) == 1 {
		explicit = formats.CDX15JSON
	}
	c04parse(doc, explicit, "C04.cdx")
}

func H_C04_SPDX() {
	doc := c04inject(spdxDoc(), rt.Bound("FAULTS", 1, 2))
	explicit := formats.Format("")
	if rt.NondetChoice("explicit", 2) == 1 {
		explicit = formats.SPDX23JSON
	}
	c04parse(doc, explicit, "C04.spdx")
}

// H_C04_Unfaulted: the representative documents themselves parse (guards the harness against vacuity).
func H_C04_Unfaulted() {
	c04parse(cdxDoc("1.5"), "", "C04.base.cdx")
	c04parse(spdxDoc(), "", "C04.base.spdx")
	s := rt.NewJSONStream(cdxDoc("1.5"))
	d, err := reader.New().ParseStream(s)
	rt.Assert(err == nil && d != nil && len(d.NodeList.Nodes) == 4, "C04.base.cdx.nodes")
	s2 := rt.NewJSONStream(spdxDoc())
	d2, err2 := reader.New().ParseStream(s2)
	rt.Assert(err2 == nil && d2 != nil && len(d2.NodeList.Nodes) == 2, "C04.base.spdx.nodes")
}

// H_C04_Shapes: every combination of absent / null / empty / minimal top-level parts (pairs of structural faults that
// the single-fault sweep cannot reach, e.g. no main component together with an empty component list).
func H_C04_Shapes() {
	part := func(name string, full *rt.J) *rt.J {
		switch rt.NondetChoice(name, 4) {
		case 0:
			return nil // absent
		case 1:
			return jNull()
		case 2:
			if full.Kind == 4 {
				return jArr()
			}
			return jObj()
		}
		return full
	}
	if rt.NondetChoice("format", 2) == 0 {
		meta := part("metadata", jObj(jm{"component", part("maincomponent", cdxComponent("root", "app"))}))
		doc := jObj(jm{"bomFormat", jStr("CycloneDX")}, jm{"specVersion", jStr("1.5")}, jm{"version", jNum(1)}, jm{"metadata", meta},
			jm{"components", part("components", jArr(cdxComponent("liba", "liba")))},
			jm{"dependencies", part("dependencies", jArr(jObj(jm{"ref", jStr("liba")})))})
		c04parse(doc, "", "C04.shapes.cdx")
		return
	}
	base := spdxDoc()
	doc := jObj(jm{"spdxVersion", jStr("SPDX-2.3")}, jm{"SPDXID", jStr("SPDXRef-DOCUMENT")}, jm{"name", jStr("doc")},
		jm{"creationInfo", part("creationInfo", jGet(base, "creationInfo"))},
		jm{"packages", part("packages", jGet(base, "packages"))},
		jm{"files", part("files", jGet(base, "files"))},
		jm{"relationships", part("relationships", jGet(base, "relationships"))},
		jm{"documentDescribes", part("describes", jGet(base, "documentDescribes"))})
	c04parse(doc, "", "C04.shapes.spdx")
}

func countStrings(j *rt.J) int {
	if j.Kind == 3 {
		return 1
	}
	n := 0
	for _, it := range j.Items {
		n += countStrings(it)
	}
	return n
}

// withSymbolicLeaf returns a copy of j whose target-th string leaf (pre-order) is the string s.
func withSymbolicLeaf(j *rt.J, target int, s string, ctr *int) *rt.J {
	if j.Kind == 3 {
		me := *ctr
		*ctr++
		if me == target {
			return jStr(s)
		}
		return j
	}
	if len(j.Items) == 0 {
		return j
	}
	out := &rt.J{Kind: j.Kind, N: j.N, B: j.B, Keys: j.Keys}
	for _, it := range j.Items {
		out.Items = append(out.Items, withSymbolicLeaf(it, target, s, ctr))
	}
	return out
}

// H_C04_Strings: one string value of the reference documents at a time is an unconstrained symbolic string (identifiers,
// enum names, dates, actor strings, locators, versions): whatever its content, the reader returns a document or an error.
func H_C04_Strings() {
	var doc *rt.J
	site := "C04.strings.cdx"
	if rt.NondetChoice("format", 2) == 0 {
		doc = cdxDoc("1.5")
	} else {
		doc = spdxDoc()
		site = "C04.strings.spdx"
	}
	k := rt.NondetChoice("leaf", countStrings(doc))
	ctr := 0
	doc = withSymbolicLeaf(doc, k, rt.NondetString("text"), &ctr)
	c04parse(doc, "", site)
}

// H_C04_Twice: two detections / parses in a row in one process, the first on an input that makes the line scanner
// give up (a line longer than its buffer), on junk, or on a well-formed document: the second call returns as well
// (nothing the first call acquired is left behind).
func H_C04_Twice() {
	first := rt.NewTextStream("SPDXVersion: "+rt.NondetString("v"), rt.NondetString("line"))
	switch rt.NondetChoice("first", 3) {
	case 1:
		first.SetOverlongLine(1 + rt.NondetChoice("which", 2))
	case 2:
		first = rt.NewJSONStream(cdxDoc("1.5"))
	}
	rt.Exits(func() { reader.New().ParseStream(first) })
	if rt.NondetChoice("second", 2) == 0 {
		c04parse(spdxDoc(), "", "C04.twice.spdx")
		return
	}
	s := rt.NewTextStream(rt.NondetString("line2"))
	var err error
	exited := rt.Exits(func() { _, err = reader.New().ParseStream(s) })
	rt.Assert(!exited, "C04.twice.noexit")
	rt.Assert(err != nil, "C04.twice.text")
}
