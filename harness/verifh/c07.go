package verifh

import (
	rt "github.com/protobom/protobom/internal/verifrt"
	"github.com/protobom/protobom/pkg/native"
	"github.com/protobom/protobom/pkg/native/serializers"
	"github.com/protobom/protobom/pkg/sbom"
	"github.com/spdx/tools-golang/spdx"
)

// C07: serializers are total. The document is an arbitrary value of the Document message type: optional parts are
// present or absent by decision, enum fields are symbolic integers (unknown numbers included), identifiers and edge
// endpoints are symbolic strings (empty, repeated, dangling, cyclic shapes arise as equality patterns).
// Elements of repeated message fields are non-nil (protobuf decoding cannot produce nil elements).

func c07strPtr(p string) *string {
	if rt.NondetChoice(p+"nil", 2) == 0 {
		return nil
	}
	s := rt.NondetString(p)
	return &s
}

// c07node: a node carrying every kind of attribute; exactly one enum-valued field takes an arbitrary number
// (unknown numbers and -1 included), the others a known value; texts are symbolic.
func c07node(p string) *sbom.Node {
	which := rt.NondetChoice(p+"symenum", 6)
	enum := func(k int, name string, lo, hi, def int32) int32 {
		if which == k {
			return rt.NondetInt32(p+name, lo, hi)
		}
		return def
	}
	n := &sbom.Node{Id: rt.NondetString(p + "id"), Name: rt.NondetString(p + "name"), Type: sbom.Node_NodeType(enum(0, "type", -1, 3, 0))}
	np := rt.NondetLen(p+"npurpose", 2)
	for i := 0; i < np; i++ {
		n.PrimaryPurpose = append(n.PrimaryPurpose, sbom.Purpose(enum(1, "purpose", -1, 40, int32(sbom.Purpose_LIBRARY))))
	}
	n.Hashes = map[int32]string{enum(2, "algo", -1, 30, int32(sbom.HashAlgorithm_SHA256)): rt.NondetString(p + "hash")}
	n.Licenses = []string{rt.NondetString(p + "lic")}
	n.ExternalReferences = []*sbom.ExternalReference{{Url: rt.NondetString(p + "erurl"), Type: sbom.ExternalReference_ExternalReferenceType(enum(3, "ertype", -1, 60, int32(sbom.ExternalReference_WEBSITE))),
		Hashes: map[int32]string{enum(4, "eralgo", -1, 30, int32(sbom.HashAlgorithm_SHA1)): "h"}}}
	n.Identifiers = map[int32]string{enum(5, "idtype", -1, 8, int32(sbom.SoftwareIdentifierType_PURL)): rt.NondetString(p + "ident")}
	if rt.NondetChoice(p+"people", 2) == 1 {
		sup := &sbom.Person{Name: rt.NondetString(p + "supplier"), Email: rt.NondetString(p + "email"), IsOrg: rt.NondetBool(p + "isorg")}
		if rt.NondetChoice(p+"contacts", 2) == 1 {
			sup.Contacts = []*sbom.Person{{Name: "c"}}
		}
		n.Suppliers = []*sbom.Person{sup}
		n.Originators = []*sbom.Person{{Name: rt.NondetString(p + "originator")}}
		n.ReleaseDate = symDate(p + "release")
		n.Copyright = rt.NondetString(p + "copyright")
	}
	return n
}

func c07meta() *sbom.Metadata {
	if rt.NondetChoice("hasMeta", 2) == 0 {
		return nil
	}
	m := &sbom.Metadata{Id: rt.NondetString("docid"), Version: rt.NondetString("docver"), Name: rt.NondetString("docname")}
	nd := rt.NondetLen("ndoctypes", 1)
	for i := 0; i < nd; i++ {
		dt := &sbom.DocumentType{Name: c07strPtr("dtname"), Description: c07strPtr("dtdesc")}
		if rt.NondetChoice("dthastype", 2) == 1 {
			t := sbom.DocumentType_SBOMType(rt.NondetInt32("dttype", -1, 12))
			dt.Type = &t
		}
		m.DocumentTypes = append(m.DocumentTypes, dt)
	}
	if rt.NondetChoice("hasAuthors", 2) == 1 {
		m.Authors = []*sbom.Person{{Name: rt.NondetString("author")}}
		m.Tools = []*sbom.Tool{{Name: rt.NondetString("tool"), Version: rt.NondetString("toolver")}}
	}
	return m
}

// shape: every combination of absent / present document parts around a one-node graph
func c07shapeDoc() *sbom.Document {
	doc := &sbom.Document{Metadata: c07meta()}
	if rt.NondetChoice("hasNodeList", 2) == 1 {
		nl := &sbom.NodeList{}
		if rt.NondetChoice("hasNode", 2) == 1 {
			nl.Nodes = []*sbom.Node{{Id: rt.NondetString("nid"), Type: sbom.Node_NodeType(rt.NondetInt32("ntype", -1, 3))}}
		}
		nr := rt.NondetLen("nr", 2)
		for i := 0; i < nr; i++ {
			nl.RootElements = append(nl.RootElements, rt.NondetString("root"))
		}
		doc.NodeList = nl
	}
	return doc
}

// graph: arbitrary small graphs (empty / repeated ids, dangling or cyclic edges, unknown edge types, 0..2 roots)
func c07graphDoc() *sbom.Document {
	doc := &sbom.Document{Metadata: &sbom.Metadata{Id: "doc", Version: "1", Name: rt.NondetString("docname")}}
	nl := &sbom.NodeList{}
	nn := rt.NondetLen("nn", rt.Bound("N", 2, 3))
	for i := 0; i < nn; i++ {
		id := rt.NondetString("nid")
		// auto-generated references ("protobom-...") have their own harness (H_C07_AutoRefs): the prefix test and the
		// Split on every id make the general graph queries an order of magnitude slower
		rt.Assume(rt.Not(rt.StrHasPrefix(id, "protobom-")))
		nl.Nodes = append(nl.Nodes, &sbom.Node{Id: id, Type: sbom.Node_NodeType(rt.NondetInt32("ntype", 0, 2))})
	}
	ne := rt.NondetLen("ne", rt.Bound("E", 1, 2))
	for i := 0; i < ne; i++ {
		ed := &sbom.Edge{From: rt.NondetString("from"), Type: edgeType(rt.NondetChoice("etype", 4))}
		nt := rt.NondetLen("nt", rt.Bound("T", 2, 2))
		for j := 0; j < nt; j++ {
			ed.To = append(ed.To, rt.NondetString("to"))
		}
		nl.Edges = append(nl.Edges, ed)
	}
	nr := rt.NondetLen("nr", rt.Bound("R", 1, 2))
	for i := 0; i < nr; i++ {
		nl.RootElements = append(nl.RootElements, rt.NondetString("root"))
	}
	doc.NodeList = nl
	return doc
}

// attrs: one root node carrying every kind of attribute with full-range enum numbers
func c07attrDoc() *sbom.Document {
	n := c07node("n")
	return &sbom.Document{Metadata: &sbom.Metadata{Id: "doc", Version: rt.NondetString("docver")},
		NodeList: &sbom.NodeList{Nodes: []*sbom.Node{n}, RootElements: []string{n.Id}}}
}

func c07total(s native.Serializer, doc *sbom.Document, site string) {
	var res interface{}
	var err error
	exited := rt.Exits(func() { res, err = s.Serialize(doc, &native.SerializeOptions{}, nil) })
	rt.Assert(!exited, site+".noexit")
	rt.Assert(res != nil || err != nil, site+".outputorerror")
}

func c07ser(i int) native.Serializer {
	switch i {
	case 0:
		return serializers.NewCDX("1.5", "json")
	case 1:
		return serializers.NewCDX("1.4", "json")
	}
	return serializers.NewSPDX23()
}

var c07names = []string{"cdx15", "cdx14", "spdx23"}

func H_C07_Shape() {
	i := rt.NondetChoice("fmt", 3)
	c07total(c07ser(i), c07shapeDoc(), "C07.shape."+c07names[i])
}

func H_C07_Graph() {
	i := rt.NondetChoice("fmt", 3)
	if i == 1 {
		return // the 1.4 and 1.5 serializers share all code before Render
	}
	c07total(c07ser(i), c07graphDoc(), "C07.graph."+c07names[i])
}

func H_C07_Attrs() {
	i := rt.NondetChoice("fmt", 3)
	if i == 1 {
		return
	}
	c07total(c07ser(i), c07attrDoc(), "C07.attrs."+c07names[i])
}

// H_C07_AutoRefs: identifiers that look like generated references (prefix "protobom-", any remainder) on a root and
// one contained component: clearAutoRefs must cope with every remainder.
func H_C07_AutoRefs() {
	root := &sbom.Node{Id: "protobom-" + rt.NondetString("rootrest")}
	child := &sbom.Node{Id: "protobom-" + rt.NondetString("childrest")}
	doc := &sbom.Document{Metadata: &sbom.Metadata{Id: "doc", Version: "1"},
		NodeList: &sbom.NodeList{Nodes: []*sbom.Node{root, child}, RootElements: []string{root.Id}}}
	if rt.NondetChoice("contained", 2) == 1 {
		doc.NodeList.Edges = []*sbom.Edge{{From: root.Id, Type: sbom.Edge_contains, To: []string{child.Id}}}
	}
	c07total(serializers.NewCDX("1.5", "json"), doc, "C07.autorefs.cdx15")
}

// H_C07_History: the output for a document does not depend on what was serialized before, including an earlier
// serialization of the same document in another format (hidden state, or a serializer writing into its input).
func H_C07_History() {
	x, y := rt.NondetString("t"), rt.NondetString("t")
	mk := func(id string) *sbom.Node {
		return &sbom.Node{Id: id, Name: id, Hashes: map[int32]string{int32(sbom.HashAlgorithm_SHA256): "h" + id}}
	}
	doc := &sbom.Document{Metadata: &sbom.Metadata{Id: "doc", Version: "1", Name: "n"},
		NodeList: &sbom.NodeList{Nodes: []*sbom.Node{mk("a"), mk("b"), mk("c")}, RootElements: []string{"a"},
			Edges: []*sbom.Edge{{Type: sbom.Edge_contains, From: "a", To: []string{"b"}}, {Type: sbom.Edge_dependsOn, From: "b", To: []string{x, y, "c"}}}}}
	other := &sbom.Document{Metadata: &sbom.Metadata{Id: "other", Version: "2"}, NodeList: &sbom.NodeList{Nodes: []*sbom.Node{mk("z")}, RootElements: []string{"z"}}}
	first, err1 := serializers.NewSPDX23().Serialize(doc, &native.SerializeOptions{}, nil)
	serializers.NewCDX("1.5", "json").Serialize(other, &native.SerializeOptions{}, nil)
	serializers.NewCDX("1.5", "json").Serialize(doc, &native.SerializeOptions{}, nil)
	serializers.NewSPDX23().Serialize(other, &native.SerializeOptions{}, nil)
	second, err2 := serializers.NewSPDX23().Serialize(doc, &native.SerializeOptions{}, nil)
	if err1 != nil || err2 != nil {
		rt.Assert(err1 != nil && err2 != nil, "C07.history.sameerror")
		return
	}
	d1, d2 := first.(*spdx.Document), second.(*spdx.Document)
	d1.CreationInfo.Created, d2.CreationInfo.Created = "", ""
	rt.Assert(rt.DeepEq(d1, d2), "C07.history.sameoutput")
}
