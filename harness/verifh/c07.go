package verifh

import (
	rt "github.com/protobom/protobom/internal/verifrt"
	"github.com/protobom/protobom/pkg/native"
	"github.com/protobom/protobom/pkg/native/serializers"
	"github.com/protobom/protobom/pkg/sbom"
	"github.com/spdx/tools-golang/spdx"
)

// C07: serializers are total. The document is an arbitrary value of the Document message type: optional parts are
// present or absent by decision, enum fields are symbolic integers (unknown numbers included), identifiers and edge
// endpoints are symbolic strings (empty, repeated, dangling, cyclic shapes arise as equality patterns).
// Elements of repeated message fields are non-nil (protobuf decoding cannot produce nil elements).

func c07strPtr(p string) *string {
	if rt.NondetChoice(p+"nil", 2) == 0 {
		return nil
	}
	s := rt.NondetString(p)
	return &s
}

// c07node: a node carrying every kind of attribute; exactly one enum-valued field takes an arbitrary number
// (unknown numbers and -1 included), the others a known value; texts are symbolic.
func c07node(p string) *sbom.Node {
	which := rt.NondetChoice(p+"symenum", 6)
	enum := func(k int, name string, lo, hi, def int32) int32 {
		if which == k {
			return rt.NondetInt32(p+name, lo, hi)
		}
		return def
	}
	n := &sbom.Node{Id: rt.NondetString(p + "id"), Name: rt.NondetString(p + "name"), Type: sbom.Node_NodeType(enum(0, "type", -1, 3, 0))}
	np := rt.NondetLen(p+"npurpose", 2)
	for i := 0; i < np; i++ {
		n.PrimaryPurpose = append(n.PrimaryPurpose, sbom.Purpose(enum(1, "purpose", -1, 40, int32(sbom.Purpose_LIBRARY))))
	}
	n.Hashes = map[int32]string{enum(2, "algo", -1, 30, int32(sbom.HashAlgorithm_SHA256)): rt.NondetString(p + "hash")}
	n.Licenses = []string{rt.NondetString(p + "lic")}
	n.ExternalReferences = []*sbom.ExternalReference{{Url: rt.NondetString(p + "erurl"), Type: sbom.ExternalReference_ExternalReferenceType(enum(3, "ertype", -1, 60, int32(sbom.ExternalReference_WEBSITE))),
		Hashes: map[int32]string{enum(4, "eralgo", -1, 30, int32(sbom.HashAlgorithm_SHA1)): "h"}}}
	n.Identifiers = map[int32]string{enum(5, "idtype", -1, 8, int32(sbom.SoftwareIdentifierType_PURL)): rt.NondetString(p + "ident")}
	if rt.NondetChoice(p+"people", 2) == 1 {
		sup := &sbom.Person{Name: rt.NondetString(p + "supplier"), Email: rt.NondetString(p + "email"), IsOrg: rt.NondetBool(p + "isorg")}
		if rt.NondetChoice(p+"contacts", 2) == 1 {
			sup.Contacts = []*sbom.Person{{Name: "c"}}
		}
		n.Suppliers = []*sbom.Person{sup}
		n.Originators = []*sbom.Person{{Name: rt.NondetString(p + "originator")}}
		n.ReleaseDate = symDate(p + "release")
		n.Copyright = rt.NondetString(p + "copyright")
	}
	return n
}

func c07meta() *sbom.Metadata {
	if rt.NondetChoice("hasMeta", 2) == 0 {
		return nil
	}
	m := &sbom.Metadata{Id: rt.NondetString("docid"), Version: rt.NondetString("docver"), Name: rt.NondetString("docname")}
	nd := rt.NondetLen("ndoctypes", 1)
	for i := 0; i < nd; i++ {
		dt := &sbom.DocumentType{Name: c07strPtr("dtname"), Description: c07strPtr("dtdesc")}
		if rt.NondetChoice("dthastype", 2) == 1 {
			t := sbom.DocumentType_SBOMType(rt.NondetInt32("dttype", -1, 12))
			dt.Type = &t
		}
		m.DocumentTypes = append(m.DocumentTypes, dt)
	}
	if rt.NondetChoice("hasAuthors", 2) == 1 {
		m.Authors = []*sbom.Person{{Name: rt.NondetString("author")}}
		m.Tools = []*sbom.Tool{{Name: rt.NondetString("tool"), Version: rt.NondetString("toolver")}}
	}
	return m
}

// shape: every combination of absent / present document parts around a one-node graph
func c07shapeDoc() *sbom.Document {
	doc := &sbom.Document{Metadata: c07meta()}
	if rt.NondetChoice("hasNodeList", 2) == 1 {
		nl := &sbom.NodeList{}
		if rt.NondetChoice("hasNode", 2) == 1 {
			nl.Nodes = []*sbom.Node{{Id: rt.NondetString("nid"), Type: sbom.Node_NodeType(rt.NondetInt32("ntype", -1, 3))}}
		}
		nr := rt.NondetLen("nr", 2)
		for i := 0; i < nr; i++ {
			nl.RootElements = append(nl.RootElements, rt.NondetString("root"))
		}
		doc.NodeList = nl
	}
	return doc
}

// graph: arbitrary small graphs (empty / repeated ids, dangling or cyclic edges, unknown edge types, 0..2 roots)
func c07graphDoc() *sbom.Document {
	doc := &sbom.Document{Metadata: &sbom.Metadata{Id: "doc", Version: "1", Name: rt.NondetString("docname")}}
	nl := &sbom.NodeList{}
	nn := rt.NondetLen("nn", rt.Bound("N", 2, 3))
	for i := 0; i < nn; i++ {
		id := rt.NondetString("nid")
		// auto-generated references ("protobom-...") have their own harness (H_C07_AutoRefs): the prefix test and the
		// Split on every id make the general graph queries an order of magnitude slower
		rt.Assume(rt.Not(rt.StrHasPrefix(id, "protobom-")))
		nl.Nodes = append(nl.Nodes, &sbom.Node{Id: id, Type: sbom.Node_NodeType(rt.NondetInt32("ntype", 0, 2))})
	}
	ne := rt.NondetLen("ne", rt.Bound("E", 1, 2))
	for i := 0; i < ne; i++ {
		ed := &sbom.Edge{From: rt.NondetString("from"), Type: edgeType(rt.NondetChoice("etype", 4))}
		nt := rt.NondetLen("nt", rt.Bound("T", 2, 2))
		for j := 0; j < nt; j++ {
			ed.To = append(ed.To, rt.NondetString("to"))
		}
		nl.Edges = append(nl.Edges, ed)
	}
	nr := rt.NondetLen("nr", rt.Bound("R", 1, 2))
	for i := 0; i < nr; i++ {
		nl.RootElements = append(nl.RootElements, rt.NondetString("root"))
	}
	doc.NodeList = nl
	return doc
}

// attrs: one root node carrying every kind of attribute with full-range enum numbers
func c07attrDoc() *sbom.Document {
	n := c07node("n")
	return &sbom.Document{Metadata: &sbom.Metadata{Id: "doc", Version: rt.NondetString("docver")},
		NodeList: &sbom.NodeList{Nodes: []*sbom.Node{n}, RootElements: []string{n.Id}}}
}

func c07total(s native.Serializer, doc *sbom.Document, site string) {
	var res interface{}
	var err error
	exited := rt.Exits(func() { res, err = s.Serialize(doc, &native.SerializeOptions{}, nil) })
	rt.Assert(!exited, site+".noexit")
	rt.Assert(res != nil || err != nil, site+".outputorerror")
}

func c07ser(i int) native.Serializer {
	switch i {
	case 0:
		return serializers.NewCDX("1.5", "json")
	case 1:
		return serializers.NewCDX("1.4", "json")
	}
	return serializers.NewSPDX23()
}

var c07names = []string{"cdx15", "cdx14", "spdx23"}

func H_C07_Shape() {
	i := rt.NondetChoice("fmt", 3)
	c07total(c07ser(i), c07shapeDoc(), "C07.shape."+c07names[i])
}

func H_C07_Graph() {
	i := rt.NondetChoice("fmt", 3)
	if i == 1 {
		return // the 1.4 and 1.5 serializers share all code before Render
	}
	c07total(c07ser(i), c07graphDoc(), "C07.graph."+c07names[i])
}

func H_C07_Attrs() {
	i := rt.NondetChoice("fmt", 3)
	if i == 1 {
		return
	}
	c07total(c07ser(i), c07attrDoc(), "C07.attrs."+c07names[i])
}

// H_C07_AutoRefs: identifiers that look like generated references (prefix "protobom-", any remainder) on a root and
// one contained component: clearAutoRefs must cope with every remainder.
func H_C07_AutoRefs() {
	root := &sbom.Node{Id: "protobom-" + rt.NondetString("rootrest")}
	child := &sbom.Node{Id: "protobom-" + rt.NondetString("childrest")}
	doc := &sbom.Document{Metadata: &sbom.Metadata{Id: "doc", Version: "1"},
		NodeList: &sbom.NodeList{Nodes: []*sbom.Node{root, child}, RootElements: []string{root.Id}}}
	if rt.NondetChoice("contained", 2) == 1 {
		doc.NodeList.Edges = []*sbom.Edge{{From: root.Id, Type: sbom.Edge_contains, To: []string{child.Id}}}
	}
	c07total(serializers.NewCDX("1.5", "json"), doc, "C07.autorefs.cdx15")
}

// H_C07_History: the output for a document does not depend on what was serialized before, including an earlier
// serialization of the same document in another format (hidden state, or a serializer writing into its input).
func H_C07_History() {
	x, y := rt.NondetString("t"), rt.NondetString("t")
	mk := func(id string) *sbom.Node {
		return &sbom.Node{Id: id, Name: id, Hashes: map[int32]string{int32(sbom.HashAlgorithm_SHA256): "h" + id}}
	}
	doc := &sbom.Document{Metadata: &sbom.Metadata{Id: "doc", Version: "1", Name: "n"},
		NodeList: &sbom.NodeList{Nodes: []*sbom.Node{mk("a"), mk("b"), mk("c")}, RootElements: []string{"a"},
			Edges: []*sbom.Edge{{Type: sbom.Edge_contains, From: "a", To: []string{"b"}}, {Type: sbom.Edge_dependsOn, From: "b", To: []string{x, y, "c"}}}}}
	other := &sbom.Document{Metadata: &sbom.Metadata{Id: "other", Version: "2"}, NodeList: &sbom.NodeList{Nodes: []*sbom.Node{mk("z")}, RootElements: []string{"z"}}}
	first, err1 := serializers.NewSPDX23().Serialize(doc, &native.SerializeOptions{}, nil)
	serializers.NewCDX("1.5", "json").Serialize(other, &native.SerializeOptions{}, nil)
	serializers.NewCDX("1.5", "json").Serialize(doc, &native.SerializeOptions{}, nil)
	serializers.NewSPDX23().Serialize(other, &native.SerializeOptions{}, nil)
	second, err2 := serializers.NewSPDX23().Serialize(doc, &native.SerializeOptions{}, nil)
	if err1 != nil || err2 != nil {
		rt.Assert(err1 != nil && err2 != nil, "C07.history.sameerror")
		return
	}
	d1, d2 := first.(*spdx.Document), second.(*spdx.Document)
	d1.CreationInfo.Created, d2.CreationInfo.Created = "", ""
	rt.Assert(rt.DeepEq(d1, d2), "C07.history.sameoutput")
}

// jSameUpToOrder: equal JSON trees where arrays are compared as multisets (set-valued arrays may come out in any order).
func jSameUpToOrder(a, b *rt.J, depth int) bool {
	if a == nil || b == nil {
		return a == nil && b == nil
	}
	if a.Kind != b.Kind || depth > 8 {
		return false
	}
	switch a.Kind {
	case 1:
		return a.B == b.B
	case 2:
		return a.N == b.N
	case 3:
		return a.S == b.S
	case 4:
		return permEq(len(a.Items), len(b.Items), func(i, j int) bool { return jSameUpToOrder(a.Items[i], b.Items[j], depth+1) })
	case 5:
		if len(a.Keys) != len(b.Keys) {
			return false
		}
		ok := true
		for i, k := range a.Keys {
			bv := jGet(b, k)
			if bv == nil {
				return false
			}
			ok = rt.And(ok, jSameUpToOrder(a.Items[i], bv, depth+1))
		}
		return ok
	}
	return true
}

func c07render(s native.Serializer, doc *sbom.Document) (*rt.J, bool) {
	res, err := s.Serialize(doc, &native.SerializeOptions{}, nil)
	if err != nil || res == nil {
		return nil, false
	}
	st := rt.NewStream()
	if s.Render(res, st, &native.RenderOptions{Indent: 2}, nil) != nil {
		return nil, false
	}
	return st.Tree(), true
}

// withoutTimestamps drops the members that carry the creation time.
func withoutTimestamps(j *rt.J) *rt.J {
	if j == nil || (j.Kind != 4 && j.Kind != 5) {
		return j
	}
	out := &rt.J{Kind: j.Kind}
	for i, it := range j.Items {
		if j.Kind == 5 {
			if j.Keys[i] == "created" || j.Keys[i] == "timestamp" {
				continue
			}
			out.Keys = append(out.Keys, j.Keys[i])
		}
		out.Items = append(out.Items, withoutTimestamps(it))
	}
	return out
}

// H_C07_Determinism: the same document twice, every iteration order of its map-valued attributes explored
// independently for the two runs: the outputs agree up to the order of arrays and the creation time.
func H_C07_Determinism() {
	i := rt.NondetChoice("fmt", 3)
	if i == 1 {
		return
	}
	n := &sbom.Node{Id: "n", Name: "n", Version: "1",
		Identifiers: map[int32]string{int32(sbom.SoftwareIdentifierType_CPE22): "cpe:/a:x:y", int32(sbom.SoftwareIdentifierType_CPE23): "cpe:2.3:a:x:y"}}
	switch rt.NondetChoice("maps", 3) {
	case 1:
		n.Identifiers[int32(sbom.SoftwareIdentifierType_PURL)] = "pkg:x/y"
	case 2:
		n.Hashes = map[int32]string{int32(sbom.HashAlgorithm_SHA1): "aa", int32(sbom.HashAlgorithm_SHA256): "bb"}
	}
	m := &sbom.Node{Id: "m", Name: "m"}
	nl := &sbom.NodeList{Nodes: []*sbom.Node{n, m}, RootElements: []string{"n"}, Edges: []*sbom.Edge{{From: "n", Type: sbom.Edge_contains, To: []string{"m"}}}}
	if rt.NondetChoice("rootis", 2) == 1 {
		nl.RootElements = []string{"m"}
		nl.Edges[0] = &sbom.Edge{From: "m", Type: sbom.Edge_contains, To: []string{"n"}}
	}
	doc := &sbom.Document{Metadata: &sbom.Metadata{Id: "doc", Version: "1"}, NodeList: nl}
	rt.MapOrderAll(true)
	a, ok1 := c07render(c07ser(i), doc)
	b, ok2 := c07render(c07ser(i), doc)
	rt.MapOrderAll(false)
	if !ok1 || !ok2 {
		rt.Assert(ok1 == ok2, "C07.determinism.sameerror")
		return
	}
	rt.Assert(jSameUpToOrder(withoutTimestamps(a), withoutTimestamps(b), 0), "C07.determinism.sameoutput")
}

// H_C07_Containment: every containment tree on a root and up to four more nodes (edges grouped per parent or one per
// pair, in a decision-chosen order) plus one more contains edge between any two nodes at any position in the list
// (self loop, cycle through any child, second parent): the CycloneDX tree building terminates.
func H_C07_Containment() {
	names := []string{"r", "x", "a", "b", "c"}
	n := 3 + rt.NondetLen("n", rt.Bound("NC", 2, 2))
	nl := &sbom.NodeList{RootElements: []string{"r"}}
	for _, id := range names[:n] {
		nl.Nodes = append(nl.Nodes, &sbom.Node{Id: id})
	}
	grouped := rt.NondetChoice("grouped", 2) == 1
	for i := 1; i < n; i++ {
		p, c := names[rt.NondetChoice("parent", i)], names[i]
		if grouped {
			if e := nl.GetEdgeByType(p, sbom.Edge_contains); e != nil {
				e.To = append(e.To, c)
				continue
			}
		}
		nl.Edges = append(nl.Edges, &sbom.Edge{From: p, Type: sbom.Edge_contains, To: []string{c}})
	}
	if rt.NondetChoice("reversed", 2) == 1 {
		for i, j := 0, len(nl.Edges)-1; i < j; i, j = i+1, j-1 {
			nl.Edges[i], nl.Edges[j] = nl.Edges[j], nl.Edges[i]
		}
	}
	extra := &sbom.Edge{From: names[1+rt.NondetChoice("from", n-1)], Type: sbom.Edge_contains, To: []string{names[rt.NondetChoice("to", n)]}}
	at := rt.NondetChoice("at", len(nl.Edges)+1)
	edges := append([]*sbom.Edge{}, nl.Edges[:at]...)
	edges = append(edges, extra)
	nl.Edges = append(edges, nl.Edges[at:]...)
	c07total(serializers.NewCDX("1.5", "json"), &sbom.Document{Metadata: &sbom.Metadata{Id: "doc", Version: "1"}, NodeList: nl}, "C07.containment.cdx15")
}

// H_C07_HistoryCDX: a CycloneDX serialization is not influenced by an earlier one that succeeded or failed half way.
func H_C07_HistoryCDX() {
	mk := func(id string) *sbom.Node { return &sbom.Node{Id: id, Name: id} }
	doc := &sbom.Document{Metadata: &sbom.Metadata{Id: "doc", Version: "1"},
		NodeList: &sbom.NodeList{Nodes: []*sbom.Node{mk("a"), mk("b"), mk("c")}, RootElements: []string{"a"},
			Edges: []*sbom.Edge{{Type: sbom.Edge_contains, From: "b", To: []string{"c"}}}}}
	other := &sbom.Document{Metadata: &sbom.Metadata{Id: "other", Version: "2"},
		NodeList: &sbom.NodeList{Nodes: []*sbom.Node{mk("z"), mk("c"), mk("y")}, RootElements: []string{"z"},
			Edges: []*sbom.Edge{{Type: sbom.Edge_contains, From: "y", To: []string{"c"}}}}}
	switch rt.NondetChoice("otherfails", 3) {
	case 1:
		other.NodeList.Edges = append(other.NodeList.Edges, &sbom.Edge{Type: sbom.Edge_dependsOn, From: "y", To: []string{"missing"}})
	case 2:
		t := sbom.DocumentType_SBOMType(77)
		other.Metadata.DocumentTypes = []*sbom.DocumentType{{Type: &t}}
	}
	v := []string{"1.5", "1.4"}[rt.NondetChoice("version", 2)]
	first, ok1 := c07render(serializers.NewCDX(v, "json"), doc)
	c07render(serializers.NewCDX([]string{"1.5", "1.4"}[rt.NondetChoice("otherversion", 2)], "json"), other)
	second, ok2 := c07render(serializers.NewCDX(v, "json"), doc)
	if !ok1 || !ok2 {
		rt.Assert(ok1 == ok2, "C07.historycdx.sameerror")
		return
	}
	rt.Assert(jSameUpToOrder(withoutTimestamps(first), withoutTimestamps(second), 0), "C07.historycdx.sameoutput")
}
