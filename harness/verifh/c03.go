package verifh

import (
	rt "github.com/protobom/protobom/internal/verifrt"
	"github.com/protobom/protobom/pkg/formats"
	"github.com/protobom/protobom/pkg/reader"
	"github.com/protobom/protobom/pkg/sbom"
	"github.com/protobom/protobom/pkg/writer"
)

// C03: whenever writing succeeds, the output - inspected as a plain JSON tree, independently of protobom's readers -
// contains every node, every relationship the format can express, and no reference to an element that was not emitted.

// c03doc: an arbitrary well-formed graph: 2..N nodes (symbolic, distinct, plain-word ids), one root, up to E edges of
// type contains / dependsOn / one SPDX-only type with 1..T targets among the nodes (cycles, DAGs, repeated pairs).
func c03doc() *sbom.Document { return c03docN(rt.Bound("N", 3, 3), rt.Bound("E", 2, 3)) }

func c03docN(maxN, maxE int) *sbom.Document {
	n := 2 + rt.NondetLen("n", maxN-2)
	nl := &sbom.NodeList{}
	// identifiers are concrete and distinct here: the graph shape (which endpoints coincide) is chosen by the
	// decisions below, so symbolic spelling of the identifiers would add nothing but solver time; the identity
	// attributes that must survive reading back are symbolic
	two := rt.NondetChoice("twopurposes", n+1)
	for i := 0; i < n; i++ {
		nd := &sbom.Node{Id: []string{"idx", "idy", "idz", "idw"}[i], Name: rt.NondetString("name"), Version: rt.NondetString("version")}
		rt.Assume(rt.And(rt.StrPlain(nd.Name), rt.StrPlain(nd.Version)))
		if i == two {
			nd.PrimaryPurpose = []sbom.Purpose{sbom.Purpose_LIBRARY, sbom.Purpose_APPLICATION}
		}
		nl.Nodes = append(nl.Nodes, nd)
	}
	// identity attributes both formats support, next to one only SPDX has (listed first)
	hv := rt.NondetString("hash")
	rt.Assume(rt.StrPlain(hv))
	nl.Nodes[n-1].Hashes = map[int32]string{int32(sbom.HashAlgorithm_SHA224): "onlyspdx", int32(sbom.HashAlgorithm_SHA256): hv, int32(sbom.HashAlgorithm_SHA1): "sha"}
	nl.Nodes[n-1].Identifiers = map[int32]string{int32(sbom.SoftwareIdentifierType_PURL): "pkg:generic/" + hv}
	is := ids(nl)
	types := []sbom.Edge_Type{sbom.Edge_contains, sbom.Edge_dependsOn, sbom.Edge_buildTool}
	ne := rt.NondetLen("ne", maxE)
	for i := 0; i < ne; i++ {
		e := &sbom.Edge{From: is[rt.NondetChoice("from", n)], Type: types[rt.NondetChoice("ty", len(types))]}
		nt := 1 + rt.NondetLen("nt", rt.Bound("T", 1, 2)-1)
		for j := 0; j < nt; j++ {
			e.To = append(e.To, is[rt.NondetChoice("to", n)])
		}
		nl.Edges = append(nl.Edges, e)
	}
	nl.RootElements = []string{is[0]}
	return &sbom.Document{Metadata: &sbom.Metadata{Id: "doc", Version: "1", Name: "docname"}, NodeList: nl}
}

func writeTo(doc *sbom.Document, f formats.Format) (*rt.Stream, error) {
	s := rt.NewStream()
	err := writer.New(writer.WithFormat(f)).WriteStream(doc, s)
	return s, err
}

func H_C03_SPDX() { c03spdx(c03doc()) }

func c03spdx(doc *sbom.Document) {
	want := cloneList(doc.NodeList)
	s, err := writeTo(doc, formats.SPDX23JSON)
	if err != nil {
		return // "whenever writing succeeds"
	}
	tree := s.Tree()
	// every node exactly once among packages and files
	var emitted []string
	for _, p := range jItems(jGet(tree, "packages")) {
		emitted = append(emitted, jS(jGet(p, "SPDXID")))
	}
	for _, p := range jItems(jGet(tree, "files")) {
		emitted = append(emitted, jS(jGet(p, "SPDXID")))
	}
	var wantIDs []string
	for _, n := range want.Nodes {
		wantIDs = append(wantIDs, "SPDXRef-"+n.Id)
	}
	rt.Assert(rt.And(len(emitted) == len(wantIDs), rt.StrSetEq(emitted, wantIDs)), "C03.spdx.elements")
	// every typed relationship, one DESCRIBES per root, and no reference to an element that was not emitted
	rels := jItems(jGet(tree, "relationships"))
	hasRel := func(a, ty, b string) bool {
		found := false
		for _, r := range rels {
			found = rt.Or(found, rt.And(jS(jGet(r, "spdxElementId")) == a, jS(jGet(r, "relationshipType")) == ty, jS(jGet(r, "relatedSpdxElement")) == b))
		}
		return found
	}
	all := true
	for _, e := range want.Edges {
		for _, to := range e.To {
			all = rt.And(all, hasRel("SPDXRef-"+e.From, e.Type.ToSPDX2(), "SPDXRef-"+to))
		}
	}
	for _, r := range want.RootElements {
		all = rt.And(all, hasRel("SPDXRef-DOCUMENT", "DESCRIBES", "SPDXRef-"+r))
	}
	rt.Assert(all, "C03.spdx.rels")
	refs := true
	known := append([]string{"SPDXRef-DOCUMENT"}, emitted...)
	for _, r := range rels {
		refs = rt.And(refs, rt.StrIn(jS(jGet(r, "spdxElementId")), known), rt.StrIn(jS(jGet(r, "relatedSpdxElement")), known))
	}
	rt.Assert(refs, "C03.spdx.refs")
	c03readback(s, want, "C03.spdx.readback")
}

// cdxRefs collects the bom-refs of a component list recursively.
func cdxRefs(comps []*rt.J, depth int) []string {
	var out []string
	if depth > 6 {
		return out
	}
	for _, c := range comps {
		out = append(out, jS(jGet(c, "bom-ref")))
		out = append(out, cdxRefs(jItems(jGet(c, "components")), depth+1)...)
	}
	return out
}

func H_C03_CDX() {
	c03cdx(c03doc(), []formats.Format{formats.CDX15JSON, formats.CDX14JSON}[rt.NondetChoice("version", 2)])
}

// c03earlier: a document written before the one under test, with the same identifiers in other roles (its root and its
// nested components are plain components of the later document).
func c03earlier() *sbom.Document {
	nl := &sbom.NodeList{RootElements: []string{"idy"}}
	for _, id := range []string{"idy", "idw", "idz"} {
		nl.Nodes = append(nl.Nodes, &sbom.Node{Id: id, Name: "earlier", Version: "0"})
	}
	nl.Edges = []*sbom.Edge{{From: "idy", Type: sbom.Edge_contains, To: []string{"idw"}}, {From: "idw", Type: sbom.Edge_contains, To: []string{"idz"}},
		{From: "idw", Type: sbom.Edge_dependsOn, To: []string{"idz"}}}
	return &sbom.Document{Metadata: &sbom.Metadata{Id: "earlier", Version: "1", Name: "earlier"}, NodeList: nl}
}

// H_C03_History: the same guarantees for a document written after another one in the same process (the registered
// serializers are shared by all writers), and after a write that failed.
func H_C03_History() {
	f := []formats.Format{formats.CDX15JSON, formats.CDX14JSON, formats.SPDX23JSON}[rt.NondetChoice("format", 3)]
	first := c03earlier()
	if rt.NondetChoice("firstfails", 2) == 1 {
		first.NodeList.Edges = append(first.NodeList.Edges, &sbom.Edge{From: "idw", Type: sbom.Edge_dependsOn, To: []string{"missing"}})
	}
	writeTo(first, f)
	if f == formats.SPDX23JSON {
		c03spdx(c03docN(3, rt.Bound("EH", 1, 2)))
		return
	}
	c03cdx(c03docN(3, rt.Bound("EH", 1, 2)), f)
}

func c03cdx(doc *sbom.Document, f formats.Format) {
	want := cloneList(doc.NodeList)
	s, err := writeTo(doc, f)
	if err != nil {
		return
	}
	tree := s.Tree()
	var emitted []string
	if mc := jGet(jGet(tree, "metadata"), "component"); mc != nil {
		emitted = append(emitted, jS(jGet(mc, "bom-ref")))
		emitted = append(emitted, cdxRefs(jItems(jGet(mc, "components")), 0)...)
	}
	emitted = append(emitted, cdxRefs(jItems(jGet(tree, "components")), 0)...)
	// every node is emitted (exactly once when containment is a forest: checked as "at least once" plus no surplus
	// when the containment edges form a forest is left to the thorough tier); nothing invented
	rt.Assert(rt.StrSubset(ids(want), emitted), "C03.cdx.components")
	rt.Assert(rt.StrSubset(emitted, ids(want)), "C03.cdx.invented")
	deps := jItems(jGet(tree, "dependencies"))
	refs := true
	for _, d := range deps {
		refs = rt.And(refs, rt.StrIn(jS(jGet(d, "ref")), emitted))
		for _, t := range jItems(jGet(d, "dependsOn")) {
			refs = rt.And(refs, rt.StrIn(jS(t), emitted))
		}
	}
	rt.Assert(refs, "C03.cdx.refs")
	// every dependsOn edge is expressed
	all := true
	for _, e := range want.Edges {
		if e.Type != sbom.Edge_dependsOn {
			continue
		}
		for _, to := range e.To {
			found := false
			for _, d := range deps {
				in := false
				for _, t := range jItems(jGet(d, "dependsOn")) {
					in = rt.Or(in, jS(t) == to)
				}
				found = rt.Or(found, rt.And(jS(jGet(d, "ref")) == e.From, in))
			}
			all = rt.And(all, found)
		}
	}
	rt.Assert(all, "C03.cdx.deps")
	c03readback(s, want, "C03.cdx.readback")
}

// reading the output back returns nodes with the same identity attributes
func c03readback(s *rt.Stream, want *sbom.NodeList, site string) {
	s.Rewind()
	got, err := reader.New().ParseStream(s)
	if err != nil || got == nil || got.NodeList == nil {
		rt.Assert(false, site+".parse")
		return
	}
	ok := true
	for _, w := range want.Nodes {
		found := false
		for _, g := range got.NodeList.Nodes {
			same := rt.And(g.Id == w.Id, g.Name == w.Name, g.Version == w.Version)
			for _, algo := range []int32{int32(sbom.HashAlgorithm_SHA256), int32(sbom.HashAlgorithm_SHA1)} {
				if v, has := w.Hashes[algo]; has {
					same = rt.And(same, g.Hashes[algo] == v)
				}
			}
			if v, has := w.Identifiers[int32(sbom.SoftwareIdentifierType_PURL)]; has {
				same = rt.And(same, g.Identifiers[int32(sbom.SoftwareIdentifierType_PURL)] == v)
			}
			found = rt.Or(found, same)
		}
		ok = rt.And(ok, found)
	}
	rt.Assert(ok, site)
}
