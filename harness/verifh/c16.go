package verifh

import (
	rt "github.com/protobom/protobom/internal/verifrt"
	"github.com/protobom/protobom/pkg/sbom"
)

// C16: lookups return exactly the nodes satisfying the criterion; GetMatchingNode follows its documented rule for
// every map iteration order. Identifiers, names, purls and hash values are symbolic, so repeated ids and purls arise.

const purlKey = int32(sbom.SoftwareIdentifierType_PURL)

var c16algos = []int32{int32(sbom.HashAlgorithm_SHA1), int32(sbom.HashAlgorithm_SHA256), 977}

func c16node(p string, withHashes bool) *sbom.Node { return c16nodeH(p, withHashes, 2, 3) }

func c16nodeH(p string, withHashes bool, maxHashes, identKinds int) *sbom.Node {
	n := &sbom.Node{Id: rt.NondetString(p + "id"), Name: rt.NondetString(p + "name")}
	if rt.NondetChoice(p+"isfile", 2) == 1 {
		n.Type = sbom.Node_FILE
	}
	switch rt.NondetChoice(p+"idents", identKinds) {
	case 1:
		n.Identifiers = map[int32]string{purlKey: rt.NondetString(p + "purl")}
	case 2:
		n.Identifiers = map[int32]string{int32(sbom.SoftwareIdentifierType_CPE23): rt.NondetString(p + "cpe")}
	}
	if withHashes {
		nh := rt.NondetLen(p+"nhash", maxHashes)
		if nh > 0 {
			n.Hashes = map[int32]string{}
			first := rt.NondetChoice(p+"algo", 2)
			for i := 0; i < nh; i++ {
				v := rt.NondetString(p + "hash")
				rt.Assume(v != "") // AddHash documents that values are never empty
				n.Hashes[c16algos[first+i]] = v
			}
		}
	}
	return n
}

func c16list(withHashes bool, nmax int) *sbom.NodeList {
	nl := &sbom.NodeList{}
	n := rt.NondetLen("n", nmax)
	for i := 0; i < n; i++ {
		nl.Nodes = append(nl.Nodes, c16node("l", withHashes))
	}
	return nl
}

func indexOfPtr(nl *sbom.NodeList, x *sbom.Node) int {
	for i, n := range nl.Nodes {
		if n == x {
			return i
		}
	}
	return -1
}

// exactly: got holds exactly the list's nodes whose criterion bit is true, each once, and nothing else.
func exactly(nl *sbom.NodeList, got []*sbom.Node, crit []bool, site string) {
	ok := true
	count := make([]int, len(nl.Nodes))
	for _, g := range got {
		i := indexOfPtr(nl, g)
		if i < 0 {
			rt.Assert(false, site+".inlist")
			return
		}
		count[i]++
	}
	for i := range nl.Nodes {
		if count[i] > 1 {
			rt.Assert(false, site+".once")
			return
		}
		ok = rt.And(ok, rt.Iff(count[i] == 1, crit[i]))
	}
	rt.Assert(ok, site+".exact")
}

func H_C16_ByID() {
	nl := c16list(false, rt.Bound("N", 3, 3))
	id := rt.NondetString("q")
	got := nl.GetNodeByID(id)
	exists := false
	for _, n := range nl.Nodes {
		exists = rt.Or(exists, n.Id == id)
	}
	if got == nil {
		rt.Assert(rt.Not(exists), "C16.byid.nil")
		return
	}
	rt.Assert(rt.And(indexOfPtr(nl, got) >= 0, got.Id == id), "C16.byid.match")
}

func H_C16_ByName() {
	nl := c16list(false, rt.Bound("N", 3, 3))
	q := rt.NondetString("q")
	crit := make([]bool, len(nl.Nodes))
	for i, n := range nl.Nodes {
		crit[i] = n.Name == q
	}
	exactly(nl, nl.GetNodesByName(q), crit, "C16.byname")
}

// every documented spelling of the identifier kinds: the SPDX external-reference type names and the short forms
var c16idTypes = []string{"purl", "cpe23", "cpe22", "cpe2.3", "gitoid", " CPE23 ", "nonsense", "", "cpe23Type", "cpe22Type", "cpe2.2", "CPE22"}

func H_C16_ByIdentifier() {
	nl := c16list(false, rt.Bound("N", 3, 3))
	ti := rt.NondetChoice("type", len(c16idTypes))
	t := c16idTypes[ti]
	var key int32 = -1
	switch ti {
	case 0:
		key = purlKey
	case 1, 3, 5, 8:
		key = int32(sbom.SoftwareIdentifierType_CPE23)
	case 2, 9, 10, 11:
		key = int32(sbom.SoftwareIdentifierType_CPE22)
	case 4:
		key = int32(sbom.SoftwareIdentifierType_GITOID)
	default:
		key = int32(sbom.SoftwareIdentifierType_UNKNOWN_IDENTIFIER_TYPE)
	}
	v := rt.NondetString("v")
	crit := make([]bool, len(nl.Nodes))
	for i, n := range nl.Nodes {
		val, has := n.Identifiers[key]
		crit[i] = rt.And(has, val == v)
	}
	exactly(nl, nl.GetNodesByIdentifier(t, v), crit, "C16.byidentifier")
}

func H_C16_RootNodes() {
	nl := c16list(false, rt.Bound("N", 3, 3))
	nr := rt.NondetLen("nr", rt.Bound("R", 2, 2))
	for i := 0; i < nr; i++ {
		nl.RootElements = append(nl.RootElements, rt.NondetString("root"))
	}
	crit := make([]bool, len(nl.Nodes))
	for i, n := range nl.Nodes {
		crit[i] = rt.StrIn(n.Id, nl.RootElements)
	}
	exactly(nl, nl.GetRootNodes(), crit, "C16.rootnodes")
	doc := &sbom.Document{NodeList: nl}
	exactly(nl, doc.GetRootNodes(), crit, "C16.docrootnodes")
}

func H_C16_ByPurlType() {
	nl := c16list(false, rt.Bound("NP", 2, 3))
	pt := rt.NondetString("ptype")
	res := nl.GetNodesByPurlType(pt)
	crit := make([]bool, len(nl.Nodes))
	for i, n := range nl.Nodes {
		p, has := n.Identifiers[purlKey]
		isPkg := n.Type != sbom.Node_FILE
		crit[i] = rt.And(has, isPkg, rt.Or(rt.StrHasPrefix(p, "pkg:"+pt+"/"), rt.StrHasPrefix(p, "pkg:/"+pt+"/")))
	}
	exactly(nl, res.Nodes, crit, "C16.bypurltype")
}

// hashesMatch: the documented comparison, written independently: both sides non-empty, at least one algorithm in
// common, all common algorithms agree.
func hashesMatch(n *sbom.Node, probe map[int32]string) bool {
	if len(n.Hashes) == 0 || len(probe) == 0 {
		return false
	}
	common := false
	agree := true
	for _, algo := range c16algos {
		pv, ph := probe[algo]
		nv, nh := n.Hashes[algo]
		if ph && nh {
			common = true
			agree = rt.And(agree, pv == nv)
		}
	}
	return rt.And(common, agree)
}

func purlOf(n *sbom.Node) string {
	if n.Type == sbom.Node_FILE {
		return ""
	}
	return n.Identifiers[purlKey]
}

func H_C16_Match() {
	nl := &sbom.NodeList{}
	n0 := rt.NondetLen("n", rt.Bound("NM", 2, 2))
	for i := 0; i < n0; i++ {
		nl.Nodes = append(nl.Nodes, c16nodeH("l", true, rt.Bound("LH", 1, 2), 2))
	}
	probe := c16nodeH("p", true, 2, 2)
	c16matchRule(nl, probe, "C16.match")
}

// H_C16_Match3: three list nodes with at most one hash each (one algorithm, symbolic values) and optional purls, a
// probe with a hash and an optional purl: the tie-break cases (several hash matches and a purl held by a node inside
// or outside them) that need three nodes.
func H_C16_Match3() {
	mk := func(p string) *sbom.Node {
		n := &sbom.Node{Id: rt.NondetString(p + "id")}
		if rt.NondetChoice(p+"haspurl", 2) == 1 {
			n.Identifiers = map[int32]string{purlKey: rt.NondetString(p + "purl")}
		}
		if rt.NondetChoice(p+"hashash", 2) == 1 {
			v := rt.NondetString(p + "hash")
			rt.Assume(v != "")
			n.Hashes = map[int32]string{c16algos[0]: v}
		}
		return n
	}
	nl := &sbom.NodeList{Nodes: []*sbom.Node{mk("l"), mk("l"), mk("l")}}
	c16matchRule(nl, mk("p"), "C16.match3")
}

func c16matchRule(nl *sbom.NodeList, probe *sbom.Node, site string) {
	rt.MapOrderAll(true)
	got, err := nl.GetMatchingNode(probe)
	n := len(nl.Nodes)
	if got != nil && indexOfPtr(nl, got) < 0 {
		rt.Assert(false, site+".inlist")
		return
	}
	rt.Assert(rt.Not(rt.And(got != nil, err != nil)), site+".notboth")
	hm := make([]bool, n)
	pm := make([]bool, n)
	pp := purlOf(probe)
	for i, x := range nl.Nodes {
		hm[i] = hashesMatch(x, probe.Hashes)
		pm[i] = rt.And(pp != "", purlOf(x) == pp)
	}
	only := func(bits []bool, i int) bool {
		ok := bits[i]
		for j := range bits {
			if j != i {
				ok = rt.And(ok, rt.Not(bits[j]))
			}
		}
		return ok
	}
	none := func(bits []bool) bool {
		ok := true
		for j := range bits {
			ok = rt.And(ok, rt.Not(bits[j]))
		}
		return ok
	}
	isRes := func(i int) bool { return got == nl.Nodes[i] && err == nil }
	both := make([]bool, n)
	for i := range both {
		both[i] = rt.And(hm[i], pm[i])
	}
	rule := true
	oneHash, onePurl, oneBoth := false, false, false
	for i := 0; i < n; i++ {
		// a unique hash match is the answer
		rule = rt.And(rule, rt.Implies(only(hm, i), isRes(i)))
		// no hash match: a unique purl match is the answer
		rule = rt.And(rule, rt.Implies(rt.And(none(hm), only(pm, i)), isRes(i)))
		// several hash matches: a unique one among them with the probe's purl is the answer
		rule = rt.And(rule, rt.Implies(rt.And(rt.Not(none(hm)), only(both, i), rt.Not(only(hm, i))), isRes(i)))
		oneHash = rt.Or(oneHash, only(hm, i))
		onePurl = rt.Or(onePurl, only(pm, i))
		oneBoth = rt.Or(oneBoth, only(both, i))
	}
	noMatch := got == nil && err == nil
	ambiguous := got == nil && err != nil
	rule = rt.And(rule, rt.Implies(rt.And(none(hm), none(pm)), noMatch))
	rule = rt.And(rule, rt.Implies(rt.And(none(hm), rt.Not(none(pm)), rt.Not(onePurl)), ambiguous))
	rule = rt.And(rule, rt.Implies(rt.And(rt.Not(none(hm)), rt.Not(oneHash), rt.Not(oneBoth)), ambiguous))
	rt.Assert(rule, site+".rule")
}
