package verifh

import (
	rt "github.com/protobom/protobom/internal/verifrt"
	"github.com/protobom/protobom/pkg/sbom"
	"github.com/protobom/protobom/pkg/storage"
)

// C19: the file-system store on a file-system model (unprivileged process, symbolic identifiers, injected I/O
// failures). Documents are small but arbitrary in their identifying content; identifiers are unconstrained strings
// (separators, dot-dot, empty all arise).

func c19doc(p string) *sbom.Document {
	return &sbom.Document{
		Metadata: &sbom.Metadata{Id: rt.NondetString(p + "id"), Version: "1", Name: rt.NondetString(p + "name")},
		NodeList: &sbom.NodeList{Nodes: []*sbom.Node{{Id: "n", Name: rt.NondetString(p + "node")}}, RootElements: []string{"n"}},
	}
}

func docSame(a, b *sbom.Document) bool {
	if a == nil || b == nil || a.Metadata == nil || b.Metadata == nil || (a.NodeList == nil) != (b.NodeList == nil) {
		return false
	}
	if a.NodeList == nil {
		return rt.And(a.Metadata.Id == b.Metadata.Id, a.Metadata.Name == b.Metadata.Name, a.Metadata.Version == b.Metadata.Version)
	}
	if len(a.NodeList.Nodes) != len(b.NodeList.Nodes) || len(a.NodeList.Nodes) != 1 {
		return false
	}
	return rt.And(a.Metadata.Id == b.Metadata.Id, a.Metadata.Name == b.Metadata.Name, a.Metadata.Version == b.Metadata.Version,
		a.NodeList.Nodes[0].Name == b.NodeList.Nodes[0].Name, a.NodeList.Nodes[0].Id == b.NodeList.Nodes[0].Id, strsEq(a.NodeList.RootElements, b.NodeList.RootElements))
}

func c19fs(exists bool) (*storage.FileSystem, string) {
	dir := rt.FSDir(exists)
	fs := storage.NewFileSystem()
	fs.Options.Path = dir
	return fs, dir
}

// round trip, isolation between identifiers, confinement, directory creation
func H_C19_RoundTrip() {
	fs, dir := c19fs(rt.NondetChoice("direxists", 2) == 1)
	a, b := c19doc("a"), c19doc("b")
	rt.Assume(a.Metadata.Id != "")
	rt.Assume(b.Metadata.Id != "")
	var err1, err2 error
	exited := rt.Exits(func() {
		err1 = fs.Store(a, nil)
		err2 = fs.Store(b, &storage.StoreOptions{})
	})
	rt.Assert(!exited, "C19.noexit")
	rt.Assert(err1 == nil && err2 == nil, "C19.store.usable")
	rt.Assert(rt.FSConfined(dir), "C19.confined")
	var ra, rb *sbom.Document
	var ea, eb error
	exited = rt.Exits(func() {
		ra, ea = fs.Retrieve(a.Metadata.Id, nil)
		rb, eb = fs.Retrieve(b.Metadata.Id, nil)
	})
	rt.Assert(!exited, "C19.noexit")
	if ea != nil || eb != nil {
		rt.Assert(false, "C19.retrieve.afterstore")
		return
	}
	// different identifiers never affect each other; the same identifier is replaced by the later store
	rt.Assert(docSame(rb, b), "C19.equal.last")
	rt.Assert(rt.Implies(a.Metadata.Id != b.Metadata.Id, docSame(ra, a)), "C19.isolated")
}

func H_C19_NoClobber() {
	fs, _ := c19fs(true)
	a, b := c19doc("a"), c19doc("b")
	rt.Assume(a.Metadata.Id != "")
	b.Metadata.Id = a.Metadata.Id
	if fs.Store(a, nil) != nil {
		rt.Assert(false, "C19.store.usable")
		return
	}
	err := fs.Store(b, &storage.StoreOptions{NoClobber: true})
	rt.Assert(err != nil, "C19.noclobber.refused")
	got, gerr := fs.Retrieve(a.Metadata.Id, nil)
	rt.Assert(gerr == nil && docSame(got, a), "C19.noclobber.intact")
	// with NoClobber and a fresh identifier the store goes through
	c := c19doc("c")
	rt.Assume(rt.And(c.Metadata.Id != "", c.Metadata.Id != a.Metadata.Id))
	rt.Assert(fs.Store(c, &storage.StoreOptions{NoClobber: true}) == nil, "C19.noclobber.fresh")
}

// unknown, unreadable or corrupt entries and id-less documents give an error return
func H_C19_Errors() {
	fs, dir := c19fs(true)
	a := c19doc("a")
	rt.Assume(a.Metadata.Id != "")
	var doc *sbom.Document
	var err error
	switch rt.NondetChoice("case", 5) {
	case 0: // unknown entry
		q := rt.NondetString("q")
		exited := rt.Exits(func() { doc, err = fs.Retrieve(q, nil) })
		rt.Assert(!exited, "C19.noexit")
		rt.Assert(err != nil && doc == nil, "C19.errorreturn.unknown")
	case 1, 2, 3: // emptied, junk, unreadable, cut-short entry
		how := rt.NondetChoice("how", 4)
		if fs.Store(a, nil) != nil {
			rt.Assert(false, "C19.store.usable")
			return
		}
		rt.FSCorrupt(dir, how)
		exited := rt.Exits(func() { doc, err = fs.Retrieve(a.Metadata.Id, nil) })
		rt.Assert(!exited, "C19.noexit")
		rt.Assert(err != nil, "C19.errorreturn.corrupt")
	case 4: // document without identifier / without metadata
		d := c19doc("x")
		if rt.NondetChoice("nometa", 2) == 1 {
			d.Metadata = nil
		} else {
			d.Metadata.Id = ""
		}
		var serr error
		exited := rt.Exits(func() { serr = fs.Store(d, nil) })
		rt.Assert(!exited, "C19.noexit")
		rt.Assert(serr != nil, "C19.errorreturn.noid")
		rt.Assert(rt.FSEntries(dir) == 0, "C19.errorreturn.noid.nofile")
	}
}

// injected I/O failures: every operation returns (error) or succeeds; no exit, no panic, and a failed store of a new
// identifier never damages another entry
func H_C19_Faults() {
	fs, _ := c19fs(true)
	a, b := c19doc("a"), c19doc("b")
	rt.Assume(rt.And(a.Metadata.Id != "", b.Metadata.Id != "", a.Metadata.Id != b.Metadata.Id))
	if fs.Store(a, nil) != nil {
		rt.Assert(false, "C19.store.usable")
		return
	}
	rt.FSFaults(true)
	exited := rt.Exits(func() { fs.Store(b, nil) })
	rt.FSFaults(false)
	rt.Assert(!exited, "C19.noexit")
	got, err := fs.Retrieve(a.Metadata.Id, nil)
	rt.Assert(err == nil && docSame(got, a), "C19.faults.otherintact")
}

// H_C19_Overwrite: a later store under the same identifier replaces the entry completely, whatever the relative
// sizes of the two documents (the second one may be smaller, e.g. lack the node list).
func H_C19_Overwrite() {
	fs, _ := c19fs(true)
	a := c19doc("a")
	rt.Assume(a.Metadata.Id != "")
	b := &sbom.Document{Metadata: &sbom.Metadata{Id: a.Metadata.Id, Version: "1", Name: a.Metadata.Name}}
	switch rt.NondetChoice("second", 3) {
	case 1:
		b.Metadata.Name = rt.NondetString("bname")
	case 2:
		b = c19doc("b")
		b.Metadata.Id = a.Metadata.Id
	}
	if fs.Store(a, nil) != nil || fs.Store(b, nil) != nil {
		rt.Assert(false, "C19.store.usable")
		return
	}
	got, err := fs.Retrieve(a.Metadata.Id, nil)
	rt.Assert(err == nil, "C19.retrieve.afterstore")
	if err == nil {
		rt.Assert(docSame(got, b), "C19.equal.overwrite")
	}
}
