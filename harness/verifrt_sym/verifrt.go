// Package verifrt: symbolic twin of the harness runtime. Every function is intercepted by the
// engine (gosym) by name before its body is entered.
package verifrt

func StrFromCodes(codes ...int) string          { panic("symbolic only") }
func NondetString(name string) string               { panic("symbolic only") }
func NondetInt(name string, lo, hi int) int         { panic("symbolic only") }
func NondetInt32(name string, lo, hi int32) int32   { panic("symbolic only") }
func NondetInt64(name string, lo, hi int64) int64   { panic("symbolic only") }
func NondetBool(name string) bool                   { panic("symbolic only") }
func NondetLen(name string, max int) int            { panic("symbolic only") }
func NondetChoice(name string, n int) int           { panic("symbolic only") }
func Bound(name string, quick, thorough int) int    { panic("symbolic only") }
func Thorough() bool                                { panic("symbolic only") }
func ThoroughOnly()                                 { panic("symbolic only") }
func Concrete() bool                                { panic("symbolic only") }
func Assume(c bool)                                 { panic("symbolic only") }
func Assert(c bool, site string)                    { panic("symbolic only") }
func Region(name string, c bool)                    { panic("symbolic only") }
func Observe(tag string, v string)                  { panic("symbolic only") }
func And(cs ...bool) bool                           { panic("symbolic only") }
func Or(cs ...bool) bool                            { panic("symbolic only") }
func Not(c bool) bool                               { panic("symbolic only") }
func Implies(a, b bool) bool                        { panic("symbolic only") }
func Iff(a, b bool) bool                            { panic("symbolic only") }
func IteStr(c bool, a, b string) string             { panic("symbolic only") }
func IteInt(c bool, a, b int) int                   { panic("symbolic only") }
func StrIn(x string, xs []string) bool              { panic("symbolic only") }
func StrsDistinct(xs []string) bool                 { panic("symbolic only") }
func StrSubset(xs, ys []string) bool                { panic("symbolic only") }
func StrSetEq(xs, ys []string) bool                 { panic("symbolic only") }
func StrLt(a, b string) bool                        { panic("symbolic only") }
func StrContains(s, sub string) bool                { panic("symbolic only") }
func StrHasPrefix(s, p string) bool                 { panic("symbolic only") }
func StrEqualFold(a, b string) bool                 { panic("symbolic only") }
func StrOver(s, alphabet string) bool               { panic("symbolic only") }
func StrPlain(s string) bool                        { panic("symbolic only") }
func MapOrderAll(on bool)                           { panic("symbolic only") }
func Panics(f func()) bool                          { panic("symbolic only") }
func Exits(f func()) bool                           { panic("symbolic only") }
func Freeze(label string, xs ...any)                { panic("symbolic only") }
func Thaw()                                         { panic("symbolic only") }
func DeepEq(a, b any) bool                          { panic("symbolic only") }
func Snapshot(x any) int                            { panic("symbolic only") }
func SameAsSnapshot(h int, x any) bool              { panic("symbolic only") }
func Havoc(x any)                                   { panic("symbolic only") }
func Par2(label string, f, g func())               { panic("symbolic only") }
func Call(f func())                                 { panic("symbolic only") }
func FSDir(exists bool) string                      { panic("symbolic only") }
func FSFaults(on bool)                              { panic("symbolic only") }
func FSConfined(dir string) bool                    { panic("symbolic only") }
func FSEntries(dir string) int                      { panic("symbolic only") }
func FSCorrupt(dir string, how int)                 { panic("symbolic only") }
func CrashDuring(f func()) bool                     { panic("symbolic only") }
func CrashIterations() int                          { panic("symbolic only") }
func FSDirN(i int) string                           { panic("symbolic only") }
func CrashDuringK(i int, f func()) bool             { panic("symbolic only") }

// J is a JSON value tree as seen by harnesses (Kind: 0 null, 1 bool, 2 number, 3 string, 4 array, 5 object).
type J struct {
	Kind  int
	S     string
	N     int
	B     bool
	Items []*J
	Keys  []string
	Lit   string // Kind 2: the number literal as written (e.g. "1.5"); N is used when empty
}

// Stream is an abstract io.WriteCloser / io.ReadSeeker carrying one JSON value tree or text lines.
type Stream struct{ _ int }

func NewStream() *Stream                         { panic("symbolic only") }
func NewJSONStream(j *J) *Stream                 { panic("symbolic only") }
func NewTextStream(lines ...string) *Stream      { panic("symbolic only") }
func (s *Stream) Write(p []byte) (int, error)    { panic("symbolic only") }
func (s *Stream) Close() error                   { panic("symbolic only") }
func (s *Stream) Read(p []byte) (int, error)     { panic("symbolic only") }
func (s *Stream) Seek(o int64, w int) (int64, error) { panic("symbolic only") }
func (s *Stream) Rewind()                        { panic("symbolic only") }
func (s *Stream) AtStart() bool                  { panic("symbolic only") }
func (s *Stream) FailSeek(on bool)               { panic("symbolic only") }
func (s *Stream) Tree() *J                       { panic("symbolic only") }
func (s *Stream) SetOverlongLine(i int)           { panic("symbolic only") }
func (s *Stream) SetLayoutFirstByte(b int)       { panic("symbolic only") }
func (s *Stream) Wrote() bool                    { panic("symbolic only") }
