package verifrt

import (
	"fmt"
	"reflect"
	"sort"
	"strings"
)

// Dump renders a value deeply and deterministically: exported fields only, order-sensitive for
// slices, nil-vs-empty sensitive, maps by sorted key.
func Dump(x any) string {
	var sb strings.Builder
	dump(&sb, reflect.ValueOf(x), 0)
	return sb.String()
}

func dump(sb *strings.Builder, v reflect.Value, depth int) {
	if depth > 14 {
		sb.WriteString("<deep>")
		return
	}
	if !v.IsValid() {
		sb.WriteString("<invalid>")
		return
	}
	switch v.Kind() {
	case reflect.Ptr, reflect.Interface:
		if v.IsNil() {
			sb.WriteString("nil")
			return
		}
		sb.WriteString("&")
		dump(sb, v.Elem(), depth+1)
	case reflect.Struct:
		sb.WriteString("{")
		t := v.Type()
		for i := 0; i < v.NumField(); i++ {
			if !t.Field(i).IsExported() {
				continue
			}
			sb.WriteString(t.Field(i).Name + ":")
			dump(sb, v.Field(i), depth+1)
			sb.WriteString(",")
		}
		sb.WriteString("}")
	case reflect.Slice:
		if v.IsNil() {
			sb.WriteString("nil[]")
			return
		}
		sb.WriteString("[")
		for i := 0; i < v.Len(); i++ {
			dump(sb, v.Index(i), depth+1)
			sb.WriteString(",")
		}
		sb.WriteString("]")
		if v.Cap() > v.Len() {
			// spare capacity is operand memory too: an append by someone else writes there
			sp := v.Slice(0, v.Cap())
			sb.WriteString("spare[")
			for i := v.Len(); i < v.Cap(); i++ {
				dump(sb, sp.Index(i), depth+1)
				sb.WriteString(",")
			}
			sb.WriteString("]")
		}
	case reflect.Array:
		sb.WriteString("[")
		for i := 0; i < v.Len(); i++ {
			dump(sb, v.Index(i), depth+1)
			sb.WriteString(",")
		}
		sb.WriteString("]")
	case reflect.Map:
		if v.IsNil() {
			sb.WriteString("nilmap")
			return
		}
		keys := v.MapKeys()
		strs := make([]string, len(keys))
		idx := map[string]reflect.Value{}
		for i, k := range keys {
			strs[i] = fmt.Sprintf("%v", k.Interface())
			idx[strs[i]] = k
		}
		sort.Strings(strs)
		sb.WriteString("map[")
		for _, s := range strs {
			sb.WriteString(s + ":")
			dump(sb, v.MapIndex(idx[s]), depth+1)
			sb.WriteString(",")
		}
		sb.WriteString("]")
	case reflect.String:
		fmt.Fprintf(sb, "%q", v.String())
	case reflect.Func, reflect.Chan, reflect.UnsafePointer:
		sb.WriteString("<opaque>")
	default:
		fmt.Fprintf(sb, "%v", v.Interface())
	}
}
