// Package verifrt: native twin of the harness runtime. It replays the values recorded by the
// engine (solver model + decisions) against the natively compiled code.
package verifrt

import (
	"encoding/json"
	"fmt"
	"os"
	"reflect"
	"strings"
	"sync"
	"time"
)

type value struct {
	Name  string `json:"name"`
	Kind  string `json:"kind"`
	Str   string `json:"str"`
	Int   int64  `json:"int"`
	Bool  bool   `json:"bool"`
}

type replayFile struct {
	Harness string  `json:"harness"`
	Site    string  `json:"site"`
	Kind    string  `json:"kind"`
	Tier    string  `json:"tier"`
	Values  []value `json:"values"`
}

var (
	rf      replayFile
	pos     int
	Failed  []string
	Obs     []string
	Invalid string
)

// Load reads the replay file; called by the generated test driver.
func Load(path string) string {
	b, err := os.ReadFile(path)
	if err != nil {
		panic(err)
	}
	if err := json.Unmarshal(b, &rf); err != nil {
		panic(err)
	}
	pos = 0
	Failed = nil
	Obs = nil
	Invalid = ""
	return rf.Harness
}

func next(name, kind string) value {
	if pos >= len(rf.Values) {
		// more values requested than recorded: the native run took a different route
		if Invalid == "" {
			Invalid = fmt.Sprintf("ran out of recorded values at %s (%s)", name, kind)
		}
		return value{}
	}
	v := rf.Values[pos]
	pos++
	if v.Name != name && Invalid == "" {
		Invalid = fmt.Sprintf("value %d: recorded %q, requested %q", pos-1, v.Name, name)
	}
	return v
}

// StrFromCodes builds a string from Unicode code points.
func StrFromCodes(codes ...int) string {
	var sb strings.Builder
	for _, c := range codes {
		sb.WriteRune(rune(c))
	}
	return sb.String()
}

func NondetString(name string) string             { return next(name, "string").Str }
func NondetInt(name string, lo, hi int) int       { return int(next(name, "int").Int) }
func NondetInt32(name string, lo, hi int32) int32 { return int32(next(name, "int").Int) }
func NondetInt64(name string, lo, hi int64) int64 { return next(name, "int").Int }
func NondetBool(name string) bool                 { return next(name, "bool").Bool }
func NondetLen(name string, max int) int          { return int(next(name, "choice").Int) }
func NondetChoice(name string, n int) int         { return int(next(name, "choice").Int) }
func Bound(name string, quick, thorough int) int {
	if rf.Tier == "thorough" {
		return thorough
	}
	return quick
}
func Thorough() bool { return rf.Tier == "thorough" }
func ThoroughOnly()  {}
func Concrete() bool { return rf.Kind == "concrete" }

func Assume(c bool) {
	if !c && Invalid == "" {
		Invalid = "assumption violated by the recorded values"
	}
}

var mu sync.Mutex

func Assert(c bool, site string) {
	mu.Lock()
	defer mu.Unlock()
	if len(Obs) < 10000 {
		Obs = append(Obs, fmt.Sprintf("assert %s %v", site, c))
	}
	if !c && len(Failed) < 100 {
		Failed = append(Failed, site)
	}
}

func Region(name string, c bool) {}

func Observe(tag string, v string) {
	mu.Lock()
	defer mu.Unlock()
	Obs = append(Obs, fmt.Sprintf("obs %s %q", tag, v))
}

func And(cs ...bool) bool {
	for _, c := range cs {
		if !c {
			return false
		}
	}
	return true
}

func Or(cs ...bool) bool {
	for _, c := range cs {
		if c {
			return true
		}
	}
	return false
}

func Not(c bool) bool        { return !c }
func Implies(a, b bool) bool { return !a || b }
func Iff(a, b bool) bool     { return a == b }
func IteStr(c bool, a, b string) string {
	if c {
		return a
	}
	return b
}
func IteInt(c bool, a, b int) int {
	if c {
		return a
	}
	return b
}

func StrIn(x string, xs []string) bool {
	for _, y := range xs {
		if x == y {
			return true
		}
	}
	return false
}

func StrsDistinct(xs []string) bool {
	for i := range xs {
		for j := i + 1; j < len(xs); j++ {
			if xs[i] == xs[j] {
				return false
			}
		}
	}
	return true
}

func StrSubset(xs, ys []string) bool {
	for _, x := range xs {
		if !StrIn(x, ys) {
			return false
		}
	}
	return true
}

func StrSetEq(xs, ys []string) bool   { return StrSubset(xs, ys) && StrSubset(ys, xs) }
func StrLt(a, b string) bool          { return a < b }
func StrContains(s, sub string) bool  { return strings.Contains(s, sub) }
func StrHasPrefix(s, p string) bool   { return strings.HasPrefix(s, p) }
func MapOrderAll(on bool)             {}

func Panics(f func()) (p bool) {
	defer func() {
		if r := recover(); r != nil {
			p = true
		}
	}()
	f()
	return false
}

// Exits cannot be observed in-process natively; harnesses that use it are replayed in a child process.
func Exits(f func()) bool { f(); return false }

// ---- write-set monitor (native): deep dump before / after.

var (
	frozenLabel string
	frozenVals  []any
	frozenDump  []string
)

func Freeze(label string, xs ...any) {
	frozenLabel = label
	frozenVals = xs
	frozenDump = nil
	for _, x := range xs {
		frozenDump = append(frozenDump, Dump(x))
	}
}

func Thaw() {
	for i, x := range frozenVals {
		if Dump(x) != frozenDump[i] {
			Failed = append(Failed, frozenLabel)
			break
		}
	}
	frozenVals, frozenDump = nil, nil
}

// StrPlain: non-empty, lower-case ASCII letters only.
// StrOver: every character of s belongs to alphabet.
func StrOver(s, alphabet string) bool {
	for _, c := range s {
		if !strings.ContainsRune(alphabet, c) {
			return false
		}
	}
	return true
}

func StrPlain(s string) bool {
	if s == "" {
		return false
	}
	for _, c := range s {
		if c < 'a' || c > 'z' {
			return false
		}
	}
	return true
}

// DeepEq: structural equality (exported fields, nil-vs-empty sensitive), as the engine's snapshot comparison.
func DeepEq(a, b any) bool { return Dump(a) == Dump(b) }

var snaps []string

func Snapshot(x any) int {
	snaps = append(snaps, Dump(x))
	return len(snaps) - 1
}

func SameAsSnapshot(h int, x any) bool { return snaps[h] == Dump(x) }

// Havoc overwrites every mutable location reachable from x (exported fields, slice elements up to capacity, map
// values plus one new key).
func Havoc(x any) {
	if Concrete() {
		return
	}
	havoc(reflect.ValueOf(x), map[uintptr]bool{}, 0)
}

func havoc(v reflect.Value, seen map[uintptr]bool, depth int) {
	if depth > 14 || !v.IsValid() {
		return
	}
	switch v.Kind() {
	case reflect.Ptr:
		if v.IsNil() || seen[v.Pointer()] {
			return
		}
		seen[v.Pointer()] = true
		havoc(v.Elem(), seen, depth+1)
	case reflect.Interface:
		if !v.IsNil() {
			havoc(v.Elem(), seen, depth+1)
		}
	case reflect.Struct:
		for i := 0; i < v.NumField(); i++ {
			if v.Type().Field(i).IsExported() {
				havoc(v.Field(i), seen, depth+1)
			}
		}
	case reflect.Slice:
		if v.IsNil() {
			return
		}
		full := v.Slice(0, v.Cap())
		for i := 0; i < full.Len(); i++ {
			havoc(full.Index(i), seen, depth+1)
		}
	case reflect.Map:
		if v.IsNil() {
			return
		}
		for _, k := range v.MapKeys() {
			e := v.MapIndex(k)
			if e.Kind() == reflect.String {
				v.SetMapIndex(k, reflect.ValueOf("HAVOC-"+e.String()).Convert(e.Type()))
			} else {
				havoc(e, seen, depth+1)
			}
		}
		kt := v.Type().Key()
		switch kt.Kind() {
		case reflect.Int32, reflect.Int, reflect.Int64:
			nk := reflect.New(kt).Elem()
			nk.SetInt(424242)
			nv := reflect.New(v.Type().Elem()).Elem()
			if nv.Kind() == reflect.String {
				nv.SetString("HAVOC-new")
			}
			v.SetMapIndex(nk, nv)
		case reflect.String:
			nv := reflect.New(v.Type().Elem()).Elem()
			if nv.Kind() == reflect.String {
				nv.SetString("HAVOC-new")
			}
			v.SetMapIndex(reflect.ValueOf("havoc-key").Convert(kt), nv)
		}
	case reflect.String:
		if v.CanSet() {
			v.SetString("HAVOC-" + v.String())
		}
	case reflect.Int, reflect.Int32, reflect.Int64:
		if v.CanSet() {
			v.SetInt(v.Int() + 17)
		}
	case reflect.Bool:
		if v.CanSet() {
			v.SetBool(!v.Bool())
		}
	}
}

// Par2 runs f and g repeatedly on two goroutines (the replay binary is built with -race for C17).
func Par2(label string, f, g func()) {
	if Concrete() {
		f()
		g()
		return
	}
	var wg sync.WaitGroup
	deadline := time.Now().Add(1500 * time.Millisecond)
	for _, h := range []func(){f, g} {
		h := h
		wg.Add(1)
		go func() {
			defer wg.Done()
			for i := 0; i < 200000 && time.Now().Before(deadline); i++ {
				h()
			}
		}()
	}
	wg.Wait()
}

func Call(f func()) { f() }

func StrEqualFold(a, b string) bool { return strings.EqualFold(a, b) }
