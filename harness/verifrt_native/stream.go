package verifrt

import (
	"bytes"
	"encoding/json"
	"errors"
	"io"
	"sort"
	"strings"
)

// J is a JSON value tree as seen by harnesses (Kind: 0 null, 1 bool, 2 number, 3 string, 4 array, 5 object).
type J struct {
	Kind  int
	S     string
	N     int
	B     bool
	Items []*J
	Keys  []string
	Lit   string // Kind 2: the number literal as written (e.g. "1.5"); N is used when empty
}

// Stream is a byte buffer with an explicit offset.
type Stream struct {
	buf      bytes.Buffer
	data     []byte
	off      int64
	reading  bool
	failSeek bool
	wrote    bool
}

func NewStream() *Stream { return &Stream{} }

func NewJSONStream(j *J) *Stream {
	s := &Stream{}
	var sb strings.Builder
	render(&sb, j)
	s.data = []byte(sb.String())
	s.reading = true
	return s
}

func NewTextStream(lines ...string) *Stream {
	return &Stream{data: []byte(strings.Join(lines, "\n") + "\n"), reading: true}
}

func render(sb *strings.Builder, j *J) {
	if j == nil {
		sb.WriteString("null")
		return
	}
	switch j.Kind {
	case 0:
		sb.WriteString("null")
	case 1:
		if j.B {
			sb.WriteString("true")
		} else {
			sb.WriteString("false")
		}
	case 2:
		if j.Lit != "" {
			sb.WriteString(j.Lit)
			break
		}
		b, _ := json.Marshal(j.N)
		sb.Write(b)
	case 3:
		b, _ := json.Marshal(j.S)
		sb.Write(b)
	case 4:
		sb.WriteString("[")
		for i, it := range j.Items {
			if i > 0 {
				sb.WriteString(",")
			}
			render(sb, it)
		}
		sb.WriteString("]")
	case 5:
		sb.WriteString("{")
		for i, it := range j.Items {
			if i > 0 {
				sb.WriteString(",")
			}
			b, _ := json.Marshal(j.Keys[i])
			sb.Write(b)
			sb.WriteString(":")
			render(sb, it)
		}
		sb.WriteString("}")
	}
}

func (s *Stream) Write(p []byte) (int, error) {
	s.wrote = true
	return s.buf.Write(p)
}

func (s *Stream) Close() error { return nil }

func (s *Stream) content() []byte {
	if !s.reading {
		s.data = append([]byte{}, s.buf.Bytes()...)
		s.reading = true
	}
	return s.data
}

func (s *Stream) Read(p []byte) (int, error) {
	d := s.content()
	if s.off >= int64(len(d)) {
		return 0, io.EOF
	}
	n := copy(p, d[s.off:])
	s.off += int64(n)
	return n, nil
}

func (s *Stream) Seek(o int64, w int) (int64, error) {
	if s.failSeek {
		return 0, errors.New("seek failed")
	}
	switch w {
	case io.SeekStart:
		s.off = o
	case io.SeekCurrent:
		s.off += o
	case io.SeekEnd:
		s.off = int64(len(s.content())) + o
	}
	return s.off, nil
}

func (s *Stream) Rewind()          { s.content(); s.off = 0 }
func (s *Stream) AtStart() bool    { return s.off == 0 }
func (s *Stream) FailSeek(on bool) { s.failSeek = on }
func (s *Stream) Wrote() bool      { return s.wrote }

// Tree decodes what was written with encoding/json only.
func (s *Stream) Tree() *J {
	var x interface{}
	dec := json.NewDecoder(bytes.NewReader(s.content()))
	dec.UseNumber()
	if err := dec.Decode(&x); err != nil {
		return nil
	}
	return toJ(x)
}

func toJ(x interface{}) *J {
	switch v := x.(type) {
	case nil:
		return &J{Kind: 0}
	case bool:
		return &J{Kind: 1, B: v}
	case json.Number:
		i, _ := v.Int64()
		return &J{Kind: 2, N: int(i)}
	case string:
		return &J{Kind: 3, S: v}
	case []interface{}:
		j := &J{Kind: 4}
		for _, e := range v {
			j.Items = append(j.Items, toJ(e))
		}
		return j
	case map[string]interface{}:
		j := &J{Kind: 5}
		var ks []string
		for k := range v {
			ks = append(ks, k)
		}
		sort.Strings(ks)
		for _, k := range ks {
			j.Keys = append(j.Keys, k)
			j.Items = append(j.Items, toJ(v[k]))
		}
		return j
	}
	return &J{Kind: 0}
}

// SetLayoutFirstByte makes b the first byte of the text: white space in front of the value, or the opening brace itself.
func (s *Stream) SetLayoutFirstByte(b int) {
	d := s.content()
	if b != '{' && (len(d) == 0 || d[0] != byte(b)) {
		s.data = append([]byte{byte(b)}, d...)
	}
}

// SetOverlongLine makes the i-th line (1-based) longer than bufio.Scanner's default buffer (64 KiB).
func (s *Stream) SetOverlongLine(i int) {
	lines := strings.Split(string(s.content()), "\n")
	if i >= 1 && i <= len(lines) {
		lines[i-1] += strings.Repeat("x", 70000)
		s.data = []byte(strings.Join(lines, "\n"))
	}
}
