package verifrt

import (
	"os"
	"os/exec"
	"path/filepath"
	"strconv"
	"syscall"
	"unsafe"
)

var (
	fsBase     string
	crashCalls int
)

// FSDir returns the configured storage directory (inside a scratch base directory): existing or not yet created.
func FSDir(exists bool) string {
	if fsBase == "" {
		fsBase = os.Getenv("VERIF_FSBASE")
		if fsBase == "" {
			d, err := os.MkdirTemp(os.Getenv("VERIF_TMP"), "fs-")
			if err != nil {
				panic(err)
			}
			fsBase = d
			os.Chmod(fsBase, 0o777)
		}
	}
	dir := filepath.Join(fsBase, "store")
	if exists {
		os.MkdirAll(dir, 0o755)
	}
	return dir
}

func FSFaults(on bool) {}

// FSConfined: nothing but the storage directory exists under the base, and it holds regular files only.
func FSConfined(dir string) bool {
	ents, err := os.ReadDir(fsBase)
	if err != nil {
		return false
	}
	for _, e := range ents {
		if filepath.Join(fsBase, e.Name()) != dir {
			return false
		}
	}
	inner, _ := os.ReadDir(dir)
	for _, e := range inner {
		if !e.Type().IsRegular() {
			return false
		}
	}
	return true
}

func FSEntries(dir string) int {
	ents, _ := os.ReadDir(dir)
	return len(ents)
}

// FSCorrupt damages every entry: 0 = emptied, 1 = junk bytes, 2 = unreadable.
func FSCorrupt(dir string, how int) {
	ents, _ := os.ReadDir(dir)
	for _, e := range ents {
		p := filepath.Join(dir, e.Name())
		switch how {
		case 0:
			os.Truncate(p, 0)
		case 1:
			os.WriteFile(p, []byte{0xff, 0xff, 0xff, 0x07, 0x13, 0x37, 0xfe}, 0o644)
		case 2: // unreadable: no permission; for the super-user (who may read anything) a directory in the entry's place
			if os.Geteuid() == 0 {
				os.Remove(p)
				os.Mkdir(p, 0o755)
			} else {
				os.Chmod(p, 0)
			}
		case 3: // cut short: the last byte is missing
			if st, err := os.Stat(p); err == nil && st.Size() > 1 {
				os.Truncate(p, st.Size()-1)
			}
		}
	}
}

// CrashDuring runs f in a child process that dies inside a file write after the recorded number of bytes
// (RLIMIT_FSIZE with SIGXFSZ restored to its default disposition: the kernel kills the process in the write call).
// The child re-runs the same recorded harness up to this call on the same scratch directory.
func CrashDuring(f func()) bool {
	crashCalls++
	k := int64(-1)
	if pos < len(rf.Values) && rf.Values[pos].Name == "torn" {
		k = rf.Values[pos].Int
		pos++
	}
	if me := os.Getenv("VERIF_CHILD_CRASH"); me != "" {
		n, _ := strconv.Atoi(me)
		if n == crashCalls {
			lim, _ := strconv.ParseUint(os.Getenv("VERIF_CRASH_K"), 10, 64)
			defaultSIGXFSZ()
			syscall.Setrlimit(syscall.RLIMIT_FSIZE, &syscall.Rlimit{Cur: lim, Max: lim})
			f()
			os.Exit(0)
		}
		f()
		return false
	}
	if k < 0 {
		// the recorded run crashed between two system calls (or not at all): not reproducible without hooks
		f()
		return false
	}
	cmd := exec.Command(os.Args[0], "-test.run=^TestReplay$", "-test.count=1")
	cmd.Env = append(os.Environ(), "VERIF_CHILD_CRASH="+strconv.Itoa(crashCalls), "VERIF_CRASH_K="+strconv.FormatInt(k, 10), "VERIF_FSBASE="+fsBase)
	err := cmd.Run()
	if ee, ok := err.(*exec.ExitError); ok {
		if ws, ok := ee.Sys().(syscall.WaitStatus); ok && ws.Signaled() {
			return true
		}
	}
	return false
}

func defaultSIGXFSZ() {
	type ksigaction struct {
		handler  uintptr
		flags    uint64
		restorer uintptr
		mask     uint64
	}
	sa := ksigaction{}
	syscall.RawSyscall6(syscall.SYS_RT_SIGACTION, uintptr(syscall.SIGXFSZ), uintptr(unsafe.Pointer(&sa)), 0, 8, 0, 0)
}

// CrashIterations: how many torn lengths the native replay tries (the engine has one symbolic length).
func CrashIterations() int {
	if Concrete() || os.Getenv("VERIF_CHILD_CRASH") != "" {
		return 1
	}
	return 400
}

var dirN = map[int]string{}

// FSDirN: an existing storage directory private to iteration i.
func FSDirN(i int) string {
	if os.Getenv("VERIF_CHILD_CRASH") != "" {
		return os.Getenv("VERIF_FSDIR")
	}
	if d, ok := dirN[i]; ok {
		return d
	}
	base := FSDir(false)
	d := filepath.Join(filepath.Dir(base), "iter"+strconv.Itoa(i))
	os.MkdirAll(d, 0o755)
	dirN[i] = d
	return d
}

// CrashDuringK: f runs in a child process that dies inside a file write after i bytes.
func CrashDuringK(i int, f func()) bool {
	if pos < len(rf.Values) && rf.Values[pos].Name == "torn" {
		pos++
	}
	if os.Getenv("VERIF_CHILD_CRASH") != "" {
		lim, _ := strconv.ParseUint(os.Getenv("VERIF_CRASH_K"), 10, 64)
		defaultSIGXFSZ()
		syscall.Setrlimit(syscall.RLIMIT_FSIZE, &syscall.Rlimit{Cur: lim, Max: lim})
		f()
		os.Exit(0)
	}
	if Concrete() {
		f()
		return false
	}
	cmd := exec.Command(os.Args[0], "-test.run=^TestReplay$", "-test.count=1")
	cmd.Env = append(os.Environ(), "VERIF_CHILD_CRASH=1", "VERIF_CRASH_K="+strconv.Itoa(i), "VERIF_FSDIR="+dirN[i])
	err := cmd.Run()
	if ee, ok := err.(*exec.ExitError); ok {
		if ws, ok := ee.Sys().(syscall.WaitStatus); ok && ws.Signaled() {
			return true
		}
	}
	return false
}
